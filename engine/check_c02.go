package main

import (
	"os"
	"strings"

	"verif/engine/sym"
)

// setupDNS installs the stubs of the DNS engine harness.
func setupDNS(e *sym.Engine, st *sym.State, l *sym.Loaded) {
	setupNetip(e, st, l)
	root := l.Pkgs[modPath]
	e.Redirects["(*"+modPath+"/filterlist.RuleStorage).NewRuleStorageScanner"] = root.Func("verifNewScanner")
	e.Redirects["(*"+modPath+"/filterlist.RuleStorageScanner).Scan"] = root.Func("verifScan")
	e.Redirects["(*"+modPath+"/filterlist.RuleStorageScanner).Rule"] = root.Func("verifScanRule")
	e.Redirects["(*"+modPath+"/filterlist.RuleStorage).RetrieveHostRule"] = root.Func("verifRetrieveHostRule")
	e.Redirects[qRetrieveNet] = root.Func("verifRetrieveNetworkRuleDNS")
	e.Redirects[qMatchPattern] = l.Pkgs[modPath+"/rules"].Func("verifMatchPatternLiteral")
	e.Redirects[qHashBetween] = l.Pkgs[modPath+"/filterutil"].Func("verifHashSummary")
	e.InjectiveUF = "H/"
	// the generic pool instance
	for _, p := range l.Prog.AllPackages() {
		_ = p
	}
	e.RedirectMatch = func(name string) string {
		if os.Getenv("GOSYM_NAMES") != "" && strings.Contains(name, "Pool") {
			println("CALLEE", name)
		}
		if strings.Contains(name, "syncutil.Pool[") && strings.Contains(name, ").Get") {
			return "verifPoolGet"
		}
		if strings.Contains(name, "syncutil.Pool[") && strings.Contains(name, ").Put") {
			return "verifPoolPut"
		}
		return ""
	}
	e.RedirectPkg = root
}

// dnsPSL is the PSL model of the DNS harnesses: the default one plus four digits, so
// that host names over {z,q,0,2,3,8} are covered (the real djb2 collides on "08"/"2z",
// "0q"/"23", ...).  Validated against the real library on every run of C02.
var dnsPSL = &sym.PSLModel{Free: sym.DefaultPSL.Free + "0238", Tails: sym.DefaultPSL.Tails}

func init() {
	register(&Spec{
		ID:       "C02",
		Pkgs:     []string{"root", "rules", "filterutil", "lookup", "filterlist"},
		InitPkgs: []string{"filterutil", "rules", "filterlist", "lookup", "root"},
		Jobs: func(tier string) []Job {
			jobs := []Job{{Pkg: "root", Func: "verifC02Vacuity", Vacuity: true}, {Pkg: "root", Func: "verifC02HostLevel"}}
			type cfg struct{ nh, nn, pat, host int64 }
			cfgs := []cfg{{1, 0, 2, 2}, {2, 0, 2, 2}, {0, 1, 2, 2}, {0, 1, 5, 2}, {1, 1, 2, 2}, {0, 2, 2, 2}, {1, 2, 2, 2}, {1, 1, 1, 3}}
			if tier == "thorough" {
				cfgs = append(cfgs, cfg{2, 1, 2, 2}, cfg{3, 0, 2, 2}, cfg{0, 3, 2, 2}, cfg{1, 2, 1, 3}, cfg{0, 2, 5, 3}, cfg{1, 1, 5, 2})
			}
			for _, c := range cfgs {
				jobs = append(jobs, Job{Pkg: "root", Func: "verifC02", Args: []int64{c.nh, c.nn, c.pat, c.host}})
			}
			// the real hash function on 2-byte names over {z,q,0,2,3,8} (collisions exist: "08"/"2z", "0q"/"23"): counterexamples replay
			jobs = append(jobs, Job{Pkg: "root", Func: "verifC02", Args: []int64{1, 0, 2, 102}, RealHash: true})
			jobs = append(jobs, Job{Pkg: "root", Func: "verifC02", Args: []int64{2, 0, 2, 102}, RealHash: true})
			jobs = append(jobs, Job{Pkg: "root", Func: "verifC02", Args: []int64{1, 1, 2, 102}, RealHash: true})
			return jobs
		},
		Setup: func(e *sym.Engine, st *sym.State, l *sym.Loaded) {
			setupDNS(e, st, l)
			e.Ctx["psl"] = dnsPSL
		},
		AbstractHash: true,
		MustReach:    []string{"c02.basic", "c02.host", "c02.hostlevel"},
		Bounds: map[string]string{
			"quick":    "0..2 hosts-file rules and 0..2 network rules (at most 3 rules together; 2 host rules + 1 network rule only in the thorough tier): (1..2 names of two symbolic letters, IPv4 or IPv6) and 0..2 network rules (literal pattern of symbolic bytes, fully symbolic option words and type masks under InvRule, optional $domain / ~$domain / $dnstype / $dnsrewrite); DNS request with a hostname of 2..3 symbolic bytes, symbolic record type and client name of 0..1 bytes; the pooled request object has arbitrary contents; the hash is uninterpreted, plus real-hash jobs (1..2 host rules, 1+1 rules) with names over {z,q,0,2,3,8} on which the real djb2 collides; IsHostLevelNetworkRule against the documented predicate for all option words",
			"thorough": "as quick, plus 2 host rules + 1 network rule, 3 host rules, 3 network rules, 1+2 rules with 3-byte hostnames, 0+2 and 1+1 rules with 5-byte patterns (shortcut table); 2+2 and 3+1 rules exhausted the per-job budget and are not claimed",
		},
		Outside:     []string{"which rule wins inside a class (C06/C07)", "the storage and its scanner (stubbed as perfect; C11)", "hostnames longer than 3 bytes", "bare-domain lines (C18)"},
		Assumptions: []string{"scanner stub yields the harness rules in order with distinct indexes", "literal-pattern stub", "hash abstraction (lemma in C01)", "PSL model"},
		Rule:        "rule counts and lengths are job parameters; all rule fields and the request symbolic",
		Validate: func(l *sym.Loaded, tier string, seed int64) (int, []string) {
			return sym.ValidatePSL(dnsPSL, 4)
		},
	})
}
