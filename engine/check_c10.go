package main

import (
	"encoding/json"
	"sort"

	"verif/engine/sym"

	"github.com/miekg/dns"
)

func c10Keywords() map[string][]string {
	var rc, rr []string
	for k := range dns.StringToRcode {
		rc = append(rc, k)
	}
	for k := range dns.StringToType {
		rr = append(rr, k)
	}
	sort.Strings(rc)
	sort.Strings(rr)
	rc = append(rc, "noerror", "JUNK", "")
	rr = append(rr, "a", "Aaaa", "JUNK", "", "none", "Reserved")
	return map[string][]string{"rcode": rc, "rr": rr}
}

func indexOf(xs []string, x string) int64 {
	for i, v := range xs {
		if v == x {
			return int64(i)
		}
	}
	panic("keyword not found: " + x)
}

func init() {
	register(&Spec{
		ID:       "C10",
		Pkgs:     []string{"rules"},
		InitPkgs: []string{"filterutil", "rules"},
		Prepare: func(rc *RunCtx) error {
			kw := c10Keywords()
			rc.Natives["keywords"] = kw
			b, _ := json.Marshal(kw)
			rc.ReplayFiles["VERIF_KEYWORDS"] = b
			return nil
		},
		Jobs: func(tier string) []Job {
			kw := curRun.Natives["keywords"].(map[string][]string)
			jobs := []Job{{Pkg: "rules", Func: "verifC10Vacuity", Vacuity: true}}
			shortMax, valMax := 5, 5
			if tier == "thorough" {
				shortMax, valMax = 8, 8
			}
			for n := 0; n <= shortMax; n++ {
				jobs = append(jobs, Job{Pkg: "rules", Func: "verifC10Short", Args: []int64{int64(n), 1}})
				jobs = append(jobs, Job{Pkg: "rules", Func: "verifC10Short", Args: []int64{int64(n), 2}})
			}
			for _, n := range []int{7, 8} {
				jobs = append(jobs, Job{Pkg: "rules", Func: "verifC10Short", Args: []int64{int64(n), 0}})
			}
			noerror := indexOf(kw["rcode"], "NOERROR")
			// every response code keyword with a fixed record type
			for i := range kw["rcode"] {
				jobs = append(jobs, Job{Pkg: "rules", Func: "verifC10Normal", Args: []int64{int64(i), indexOf(kw["rr"], "A"), 3, 1}})
				jobs = append(jobs, Job{Pkg: "rules", Func: "verifC10Normal", Args: []int64{int64(i), indexOf(kw["rr"], ""), 0, 0}})
			}
			// every record type keyword with NOERROR and a short value
			for i := range kw["rr"] {
				jobs = append(jobs, Job{Pkg: "rules", Func: "verifC10Normal", Args: []int64{noerror, int64(i), 2, 0}})
				jobs = append(jobs, Job{Pkg: "rules", Func: "verifC10Normal", Args: []int64{noerror, int64(i), 0, 0}})
			}
			// the record types with a value handler: longer symbolic values
			for _, rr := range []string{"A", "AAAA", "CNAME", "MX", "PTR", "TXT", "HTTPS", "SVCB", "SRV"} {
				top := valMax
				if rr == "SRV" && top < 7 {
					top = 7 // four fields: the shortest accepted SRV value has 7 bytes
				}
				if rr == "SRV" {
					top = 9 // room for a malformed number such as 0x1 or 011 in one of the four fields (numeric alphabets only)
				}
				for n := 0; n <= top; n++ {
					for alpha := 0; alpha < 5; alpha++ {
						if alpha >= 3 && rr != "MX" && rr != "SRV" && rr != "SVCB" && rr != "HTTPS" {
							continue // the numeric alphabets are for the records with numeric fields
						}
						if alpha < 3 && n > 7 {
							continue
						}
						jobs = append(jobs, Job{Pkg: "rules", Func: "verifC10Normal", Args: []int64{noerror, indexOf(kw["rr"], rr), int64(n), int64(alpha)}})
					}
				}
			}
			// concrete address literals (parsed by the real netip natively) for every record type
			for i := range kw["rr"] {
				for lit := 0; lit < 10; lit++ {
					jobs = append(jobs, Job{Pkg: "rules", Func: "verifC10Literal", Args: []int64{int64(i), int64(lit)}})
				}
			}
			return jobs
		},
		Setup: func(e *sym.Engine, st *sym.State, l *sym.Loaded) {
			setupNetip(e, st, l)
			e.Ctx["keywords"] = curRun.Natives["keywords"]
		},
		ContractStubs: "netip.ParseAddr on symbolic text returns an arbitrary address; concrete address literals are parsed natively",
		MustReach: []string{"c10.accepted", "c10.rejected", "c10.literal"},
		Bounds: map[string]string{
			"quick":    "short form: 0..5 symbolic bytes over {a,1,.,:,-,;} and {a,A,1,.,-}, 7..8 bytes over the letters of the four keywords; normal form: every response-code keyword and every record-type keyword of the dns tables (plus junk, lower-case and empty) with a short value, and for the nine record types with a value parser a symbolic value of 0..5 bytes over three alphabets (digits, dots, colons, blanks, '=', letters) and, for MX/SRV/SVCB/HTTPS, two numeric alphabets ({0,x,1,space,a} and {1,9,space,0,.}) with the numeric fields checked against a decimal reference",
			"thorough": "short form up to 8 bytes, values up to 8 bytes",
		},
		Outside:     []string{"values longer than the bound", "netip's text syntax: ParseAddr is a contract stub on symbolic input (error / some IPv4 / some IPv6, a deterministic function of the bytes)", "NewNetworkRule's option splitting in front of loadDNSRewrite (C12)"},
		Assumptions: []string{"netip.ParseAddr contract", "dns.StringToType / StringToRcode imported from the live native tables"},
		Rule:        "keywords enumerated concretely (a map lookup is a case split anyway); value bytes symbolic; one state per feasible parse path",
	})
}
