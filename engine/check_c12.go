package main

import (
	"encoding/json"

	"verif/engine/sym"
)

var c12Options = []string{"third-party", "~third-party", "first-party", "~first-party", "match-case", "~match-case", "important", "badfilter",
	"dnstype", "dnsrewrite", "domain", "denyallow", "ctag", "client", "elemhide", "generichide", "genericblock", "jsinject", "urlblock", "content",
	"extension", "~extension", "document", "stealth", "popup", "empty", "mp4", "script", "~script", "stylesheet", "subdocument", "object", "image",
	"xmlhttprequest", "media", "font", "websocket", "ping", "other", "~other", "unknown", ""}

func init() {
	register(&Spec{
		ID:       "C12",
		Pkgs:     []string{"rules"},
		InitPkgs: []string{"filterutil", "rules"},
		Prepare: func(rc *RunCtx) error {
			kw := c10Keywords()
			kw["option"] = c12Options
			rc.Natives["keywords"] = kw
			b, _ := json.Marshal(kw)
			rc.ReplayFiles["VERIF_KEYWORDS"] = b
			return nil
		},
		Jobs: func(tier string) []Job {
			jobs := []Job{{Pkg: "rules", Func: "verifC12Vacuity", Vacuity: true}}
			maxLine, maxK, maxV := 5, 5, 3
			if tier == "thorough" {
				maxLine, maxK, maxV = 7, 7, 5
			}
			for n := 0; n <= maxLine; n++ {
				for a := 0; a < 7; a++ {
					jobs = append(jobs, Job{Pkg: "rules", Func: "verifC12NewRule", Args: []int64{int64(n), int64(a)}})
				}
			}
			for k := 0; k < 9; k++ {
				for n := 0; n <= maxK; n++ {
					if k == 8 && n > 3 {
						continue // patternToRegexp: longer patterns are C03a's thorough tier
					}
					jobs = append(jobs, Job{Pkg: "rules", Func: "verifC12Kernels", Args: []int64{int64(k), int64(n)}})
				}
			}
			for i := range c12Options {
				for n := 0; n <= maxV; n++ {
					jobs = append(jobs, Job{Pkg: "rules", Func: "verifC12Options", Args: []int64{int64(i), int64(n)}})
				}
			}
			return jobs
		},
		Setup: func(e *sym.Engine, st *sym.State, l *sym.Loaded) {
			setupNetip(e, st, l)
			e.Ctx["keywords"] = curRun.Natives["keywords"]
		},
		MustReach: []string{"c12.nothing", "c12.error", "c12.rule", "c12.kernels", "c12.option"},
		Bounds: map[string]string{
			"quick":    "NewRule on lines of 0..5 symbolic bytes over seven alphabets (network, hosts, cosmetic, regular-expression/escape, comment and option syntax, all six ASCII white-space characters); the parsing helpers (parseRuleText, findShortcut, splitWithEscapeCharacter, findCosmeticRuleMarker, isComment, ExtractHostname, effectiveTLDPlusOne, IsDomainName, IsProbablyIP, shouldMatchHostname, patternToRegexp up to 3 bytes) on 0..5 symbolic bytes; loadOption for every option name with a value of 0..3 symbolic bytes",
			"thorough": "lines and helper inputs up to 7 bytes, option values up to 5 bytes",
		},
		Outside:     []string{"lines longer than the bound (real-world lines are not covered)", "regexp.Compile/MatchString internals and netip text parsing (contract stubs)", "findRegexpShortcut on symbolic regular expressions (its regexp.ReplaceAllString calls are executed natively on concrete input only; paths that reach them with symbolic input are cut and counted)", "inertness of blank/comment/rejected lines inside lists (C11 harness)", "patternToRegexp (C03a) and Match (C03/C04/C05)"},
		Assumptions: []string{"netip.ParseAddr contract", "PSL model for effectiveTLDPlusOne"},
		Rule:        "bytes symbolic; Go run-time panics (index, slice, nil, type assertion, division) are checked by the executor on every path",
	})
}
