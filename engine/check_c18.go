package main

import "verif/engine/sym"

func init() {
	register(&Spec{
		ID:       "C18",
		Pkgs:     []string{"root", "rules", "filterutil", "lookup", "filterlist"},
		InitPkgs: []string{"filterutil", "rules", "filterlist", "lookup", "root"},
		AbstractHash: true,
		Jobs: func(tier string) []Job {
			jobs := []Job{{Pkg: "rules", Func: "verifC18Vacuity", Vacuity: true}}
			maxNames, maxLen := 2, 2
			if tier == "thorough" {
				maxNames, maxLen = 3, 3
			}
			for ip := 0; ip < 5; ip++ {
				for n := 1; n <= maxNames; n++ {
					for c := 0; c <= 3; c++ {
						jobs = append(jobs, Job{Pkg: "rules", Func: "verifC18", Args: []int64{int64(ip), int64(n), int64(maxLen), int64(c)}})
					}
				}
			}
			for d := 0; d < 5; d++ {
				for c := 0; c <= 2; c++ {
					jobs = append(jobs, Job{Pkg: "rules", Func: "verifC18Bare", Args: []int64{int64(d), int64(c)}})
				}
			}
			// through the DNS engine: host rules are reported under the group of their address family
			jobs = append(jobs, Job{Pkg: "root", Func: "verifC02", Args: []int64{1, 0, 2, 2}}, Job{Pkg: "root", Func: "verifC02", Args: []int64{2, 0, 2, 2}})
			// with the real hash function on names over {z,q,0,2,3,8}, where it collides ("08"/"2z"): a host rule is returned iff the name is listed
			jobs = append(jobs, Job{Pkg: "root", Func: "verifC02", Args: []int64{1, 0, 2, 102}, RealHash: true}, Job{Pkg: "root", Func: "verifC02", Args: []int64{2, 0, 2, 102}, RealHash: true})
			return jobs
		},
		Setup: func(e *sym.Engine, st *sym.State, l *sym.Loaded) {
			setupDNS(e, st, l)
			e.Ctx["psl"] = dnsPSL
		},
		Validate: func(l *sym.Loaded, tier string, seed int64) (int, []string) {
			return sym.ValidatePSL(dnsPSL, 4)
		},
		MustReach: []string{"c18.parsed", "c18.match", "c18.bare"},
		Bounds: map[string]string{
			"quick":    "address from a menu of 5 literals (IPv4, IPv6, v4-mapped); 1..2 names of 1..2 symbolic bytes over {a,b,.}; separators of 1..2 symbolic blanks/tabs; comment absent, directly attached or after blanks with <=2 symbolic bytes over {#,a,space}; trailing blanks; queried name symbolic; bare domains from a menu of 5; through the DNS engine: 1..2 host rules with IPv4 / IPv6 / IPv4-mapped addresses (C02 harness), also with the real hash function on names over {z,q,0,2,3,8} on which it collides",
			"thorough": "1..3 names of 1..3 symbolic bytes, otherwise as quick",
		},
		Outside:     []string{"more than 3 names (the property says up to 8)", "names longer than 3 bytes or outside {a,b,.}", "netip's text parser (called on the concrete address literal only)"},
		Assumptions: []string{"netip.ParseAddr is executed natively on concrete literals and its result imported; on symbolic tokens over {a,b,.,space,tab,#} it is modelled as rejecting (no digit and no colon can occur)"},
		Rule:        "lengths fork (verifChoice); bytes are symbolic; one state per feasible path",
	})
}
