package main

import (
	"fmt"
	"go/types"
	"os"

	"verif/engine/sym"
)

func debugPdom(dir, fn string) {
	scratch, _ := os.MkdirTemp("", "gosym-dbg-")
	defer os.RemoveAll(scratch)
	ov, _, err := buildOverlay([]string{dir}, scratch)
	if err != nil {
		panic(err)
	}
	l, err := sym.Load(repoDir, []string{pkgDirs[dir][1]}, ov)
	if err != nil {
		panic(err)
	}
	e, _ := sym.NewEngine(l.Prog, "", 1000)
	defer e.Close()
	pkg := l.Pkgs[pkgDirs[dir][1]]
	f := pkg.Func(fn)
	if f == nil {
		for _, m := range pkg.Members {
			_ = m
		}
		// try methods
		for _, p := range l.Prog.AllPackages() {
			_ = p
		}
		fmt.Println("function not found; trying as method of NetworkRule")
		t := pkg.Type("NetworkRule")
		f = l.Prog.LookupMethod(types.NewPointer(t.Type()), pkg.Pkg, fn)
	}
	f.WriteTo(os.Stdout)
	for b, j := range e.Ipdom(f) {
		if j == nil {
			fmt.Printf("ipdom(%d) = exit\n", b.Index)
		} else {
			fmt.Printf("ipdom(%d) = %d\n", b.Index, j.Index)
		}
	}
}
