package main

import (
	"encoding/json"
	"fmt"
	"math/rand"
	"regexp"
	"sort"
	"strings"

	"verif/engine/sym"

	"github.com/AdguardTeam/urlfilter/rules"
)

// maskTokens are the tokens from which mask patterns are enumerated.
var maskTokens = []string{".", "+", "?", "$", "{", "}", "(", ")", "[", "]", "/", "\\", "*", "^", "|", "a", "B", "1", "%", "-", "_", " "}

// maskIdioms: see enumerateMaskRules.
var maskIdioms = []string{"a{2}", "_a{2}_", "a{1,2}B", "a{2}.B", "{2}a", "a{2}{3}", "a*{2}", "a^{2}", "a{,2}", "a{2,}B",
	"a+B", "a+", "a?B", "a??B", "(a|B)", "(a)1", "(?i)a", "(?:a)B", "[aB]1", "[^a]1", "[a-z]1", "a.B", "a$", "a$B", "a|B", "a\\d", "\\d1", "\\.a", "a\\", "\\(a", "a.{2}", "a-{2}"}

type nativeRules struct {
	texts []string
	rules []*rules.NetworkRule
}

// enumerateMaskRules parses pattern+"$domain=example.org[,match-case]" for every token sequence up to maxTok.
func enumerateMaskRules(maxTok int, sampleBeyond int, seed int64) *nativeRules {
	seen := map[string]bool{}
	nr := &nativeRules{}
	add := func(pat string) {
		for _, opt := range []string{"$domain=example.org", "$domain=example.org,match-case"} {
			text := pat + opt
			r, err := rules.NewNetworkRule(text, 1)
			if err != nil || r.IsRegexRule() {
				continue
			}
			k := fmt.Sprintf("%v|%s", r.IsOptionEnabled(rules.OptionMatchCase), ruleField(r, "pattern"))
			if seen[k] {
				continue
			}
			seen[k] = true
			nr.texts = append(nr.texts, text)
			nr.rules = append(nr.rules, r)
		}
	}
	var rec func(prefix string, n int)
	rec = func(prefix string, n int) {
		if n > 0 {
			add(prefix)
			add("||" + prefix)
			add(prefix + "/*")
		}
		if n == maxTok {
			return
		}
		for _, t := range maskTokens {
			rec(prefix+t, n+1)
		}
	}
	rec("", 0)
	// operator idioms: token sequences that form a complete regular-expression operator when
	// a metacharacter is left unescaped (a lone `{` is a literal for Go's regexp, `a{2}` is not),
	// alone and next to another metacharacter
	for _, p := range maskIdioms {
		add(p)
		add("||" + p)
	}
	rnd := rand.New(rand.NewSource(seed))
	for i := 0; i < sampleBeyond; i++ {
		n := maxTok + 1 + rnd.Intn(3)
		p := ""
		if rnd.Intn(3) == 0 {
			p = "||"
		}
		for j := 0; j < n; j++ {
			p += maskTokens[rnd.Intn(len(maskTokens))]
		}
		add(p)
	}
	return nr
}

func ruleField(r *rules.NetworkRule, name string) string {
	return reflectString(r, name)
}

func nativeRuleProvider(nr *nativeRules) func(e *sym.Engine, st *sym.State, i int) sym.Value {
	return func(e *sym.Engine, st *sym.State, i int) sym.Value {
		// parse afresh so that lazily compiled state never leaks between jobs
		r, err := rules.NewNetworkRule(nr.texts[i], 1)
		if err != nil {
			panic(err)
		}
		return e.ImportPtr(st, r, modPath+"/rules", "NetworkRule")
	}
}

func batchJobs(fn string, n, batch int, extra ...int64) []Job {
	var jobs []Job
	for from := 0; from < n; from += batch {
		c := batch
		if from+c > n {
			c = n - from
		}
		jobs = append(jobs, Job{Pkg: "rules", Func: fn, Args: append([]int64{int64(from), int64(c)}, extra...)})
	}
	return jobs
}

// validateRegexEncoding compares the engine's encoding of each rule's compiled
// expression with regexp.MatchString on concrete strings.
func validateRegexEncoding(l *sym.Loaded, nr *nativeRules, seed int64, perRule int) (int, []string) {
	e, err := sym.NewEngine(l.Prog, "", 1000)
	if err != nil {
		return 0, []string{err.Error()}
	}
	defer e.Close()
	rnd := rand.New(rand.NewSource(seed))
	fixed := []string{"", "http://example.org/", "https://sub.example.org/a?b=c", "ws://a.b/", "a", "A", "http://a^b", "x.y%z", "ab ", " "}
	n := 0
	var mm []string
	alpha := " !#$%&()*+,-./019:;=?@ABZ[\\]^_`abz{|}~"
	for i, r := range nr.rules {
		pat := safeCompiledPattern(r)
		if pat == "" {
			continue
		}
		re, err := regexp.Compile(pat)
		if err != nil {
			continue
		}
		var inputs []string
		inputs = append(inputs, fixed...)
		for k := 0; k < perRule; k++ {
			b := make([]byte, rnd.Intn(10))
			for j := range b {
				b[j] = alpha[rnd.Intn(len(alpha))]
			}
			inputs = append(inputs, string(b))
			// strings built around the pattern itself are more likely to match
			base := nr.texts[i]
			if k := strings.Index(base, "$domain"); k >= 0 {
				base = base[:k]
			}
			inputs = append(inputs, "http://"+strings.NewReplacer("|", "", "*", "x", "^", "/").Replace(base))
		}
		for _, in := range inputs {
			got, err := e.EvalProgConcrete(pat, in)
			n++
			if err != nil {
				mm = append(mm, fmt.Sprintf("encoding of %q failed: %v", pat, err))
				break
			}
			if got != re.MatchString(in) {
				mm = append(mm, fmt.Sprintf("regexp encoding disagrees with MatchString: pattern %q input %q: encoding %v", pat, in, got))
			}
		}
		if len(mm) > 5 {
			break
		}
	}
	return n, mm
}

func init() {
	register(&Spec{
		ID:       "C03",
		Pkgs:     []string{"rules"},
		InitPkgs: []string{"filterutil", "rules"},
		Prepare: func(rc *RunCtx) error {
			// all patterns of 1..2 tokens; 3-token and longer patterns are seeded samples
			maxTok, sample := 2, 150
			if rc.Tier == "thorough" {
				sample = 600
			}
			nr := enumerateMaskRules(maxTok, sample, rc.Seed)
			rc.Natives["rules"] = nr
			b, _ := json.Marshal(nr.texts)
			rc.ReplayFiles["VERIF_RULES"] = b
			return nil
		},
		Jobs: func(tier string) []Job {
			jobs := []Job{{Pkg: "rules", Func: "verifC03aVacuity", Vacuity: true}, {Pkg: "rules", Func: "verifMaskVacuity", Vacuity: true}}
			maxN, maxL := 3, 10
			if tier == "thorough" {
				maxN, maxL = 3, 12 // four symbolic pattern bytes do not finish within the per-job budget
			}
			for n := 1; n <= maxN; n++ {
				jobs = append(jobs, Job{Pkg: "rules", Func: "verifC03a", Args: []int64{int64(n)}})
			}
			nr := curRun.Natives["rules"].(*nativeRules)
			if tier == "thorough" {
				// every pattern with URLs up to 10 bytes, every eighth batch of patterns with URLs up to 12 bytes
				// (the cost per pattern grows about tenfold from 10 to 12 bytes)
				all := batchJobs("verifMaskRules", len(nr.texts), 8, 10, 3)
				jobs = append(jobs, all...)
				for i, j := range batchJobs("verifMaskRules", len(nr.texts), 8, int64(maxL), 3) {
					if i%8 == 0 {
						jobs = append(jobs, j)
					}
				}
				return jobs
			}
			jobs = append(jobs, batchJobs("verifMaskRules", len(nr.texts), 8, int64(maxL), 3)...)
			return jobs
		},
		Setup: func(e *sym.Engine, st *sym.State, l *sym.Loaded) {
			setupNetip(e, st, l)
			e.Ctx["native:rule"] = nativeRuleProvider(curRun.Natives["rules"].(*nativeRules))
		},
		MustReach: []string{"c03a.translated", "c03b.rule"},
		Bounds: map[string]string{
			"quick":    "(a) pattern of 1..3 symbolic bytes over {a . * ^ | / $ \\}; (b) every mask pattern of 1..2 tokens over 22 tokens (all regexp metacharacters, * ^ |, letters of both cases, digit, % - _ space), each also with a leading || and a trailing /*, with and without $match-case, plus 32 operator idioms (a{2}, a{1,2}B, a+B, (a|B), [a-z]1, a.{2}, \\d1 ...: sequences that are a complete regexp operator if a metacharacter stays unescaped, each also with a leading ||), plus 150 seeded longer patterns: for each, ALL URLs of 0..10 printable-ASCII bytes",
			"thorough": "(a) 1..3 bytes (4 bytes exhausted the per-job budget and are not claimed); (b) 1..2 tokens plus the operator idioms plus 600 seeded patterns of 3..5 tokens: every pattern with URLs of 0..10 bytes and every eighth batch of eight patterns with URLs of 0..12 bytes (all patterns at 12 bytes did not finish in an hour and are not claimed)",
		},
		Outside:     []string{"URLs longer than the bound", "non-ASCII bytes", "patterns above the token bound (sampled only)", "regexp.Compile itself: the compiled program is obtained natively and its Pike-VM semantics encoded; the encoding is validated against MatchString on concrete strings each run"},
		Assumptions: []string{"strings.Replacer modelled for the concrete single-byte table read from the live specialCharReplacer initialiser", "regexp encoding == (*Regexp).MatchString on ASCII (validated on concrete strings each run)", "reference automaton written from the documented mask syntax (rules/regex.go comments and the knowledge-base text)"},
		Rule:        "outer enumeration of concrete patterns (parsed natively by the real parser); per (pattern, URL length) one solver query over all URL bytes",
		Validate: func(l *sym.Loaded, tier string, seed int64) (int, []string) {
			return validateRegexEncoding(l, curRun.Natives["rules"].(*nativeRules), seed, 6)
		},
	})
}

var _ = sort.Strings

// safeCompiledPattern calls the repository's translation natively; a crash there is
// left to the symbolic jobs to report (they replay it), the enumeration just goes on.
func safeCompiledPattern(r *rules.NetworkRule) (pat string) {
	defer func() {
		if recover() != nil {
			pat = ""
		}
	}()
	return rules.VerifCompiledPattern(r)
}
