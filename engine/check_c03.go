package main

func init() {
	register(&Spec{
		ID:       "C03",
		Pkgs:     []string{"rules"},
		InitPkgs: []string{"filterutil", "rules"},
		Jobs: func(tier string) []Job {
			jobs := []Job{{Pkg: "rules", Func: "verifC03aVacuity", Vacuity: true}}
			maxN := 3
			if tier == "thorough" {
				maxN = 4
			}
			for n := 1; n <= maxN; n++ {
				jobs = append(jobs, Job{Pkg: "rules", Func: "verifC03a", Args: []int64{int64(n)}})
			}
			return jobs
		},
		Setup:     setupNetip,
		MustReach: []string{"c03a.translated"},
		Bounds: map[string]string{
			"quick":    "(a) pattern of 1..3 symbolic bytes over {a . * ^ | / $ \\}",
			"thorough": "(a) pattern of 1..4 symbolic bytes",
		},
		Outside:     []string{"patterns longer than the bound", "non-ASCII"},
		Assumptions: []string{"strings.Replacer modelled for the concrete single-byte table read from the live specialCharReplacer initialiser"},
		Rule:        "one state per feasible path (positions of special characters fork)",
	})
}
