package main

import "verif/engine/sym"

func init() {
	register(&Spec{
		ID:       "C06",
		Pkgs:     []string{"root", "rules", "filterutil", "lookup", "filterlist"},
		InitPkgs: []string{"filterutil", "rules", "filterlist", "lookup", "root"},
		Setup: func(e *sym.Engine, st *sym.State, l *sym.Loaded) {
			setupNetip(e, st, l)
			e.Redirects["(*"+modPath+".NetworkEngine).MatchAll"] = l.Pkgs[modPath].Func("verifMatchAllStub")
		},
		Jobs: func(tier string) []Job {
			jobs := []Job{{Pkg: "rules", Func: "verifC06Vacuity", Vacuity: true}}
			maxK, maxS, maxD, maxT := 2, 2, 3, 1
			if tier == "thorough" {
				maxK, maxS, maxD, maxT = 3, 2, 4, 2
			}
			for k := 0; k <= maxK; k++ {
				for s := 0; s <= maxS; s++ {
					if k == 3 && s == 2 {
						continue // exhausts the per-job budget: not claimed
					}
					jobs = append(jobs, Job{Pkg: "rules", Func: "verifC06Web", Args: []int64{int64(k), int64(s)}})
				}
			}
			for k := 0; k <= maxD; k++ {
				jobs = append(jobs, Job{Pkg: "rules", Func: "verifC06DNS", Args: []int64{int64(k)}})
			}
			for k := 0; k <= maxT; k++ {
				for px := 0; px <= k; px++ {
					for pb := 0; pb <= k; pb++ {
						jobs = append(jobs, Job{Pkg: "rules", Func: "verifC06Twin", Args: []int64{int64(k), int64(px), int64(pb)}})
					}
				}
			}
			for k := 0; k <= 2; k++ {
				for s := 0; s <= 1; s++ {
					for ws := 0; ws <= 1; ws++ {
						jobs = append(jobs, Job{Pkg: "root", Func: "verifC06Wiring", Args: []int64{int64(k), int64(s), int64(ws)}})
					}
				}
			}
			return jobs
		},
		MustReach: []string{"c06.allow", "c06.block", "c06.none", "c06.dns", "c06.twin", "c06.wiring"},
		Bounds: map[string]string{
			"quick":    "web: k<=2 request rules and s<=2 referrer rules; DNS: k<=3; twin insertion: base list k<=1, every pair of insertion positions; each rule: exception flag, 64-bit option word and 32-bit type mask symbolic under InvRule, pattern letter, $domain present or not, $dnsrewrite present or not",
			"thorough": "web: k<=3 with s<=1 and k<=2 with s<=2 (k=3 with s=2 exhausted the per-job budget and is not claimed); DNS: k<=4; twin insertion: base k<=2",
		},
		Outside:     []string{"the lookup behind MatchAll (C01): in the wiring harness of Engine.MatchRequest / NetworkEngine.Match it returns the harness lists", "unparseable option bits ($csp/$replace/$cookie/$redirect) are zero under InvRule", "more rules per request than the bound"},
		Assumptions: []string{"InvRule; rules re-parsed from text on native replay"},
		Rule:        "every rule position holds an arbitrary symbolic rule, so all permutations and splits are covered by symmetry; rewrite presence and selected-rule identity fork",
	})
}
