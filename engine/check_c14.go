package main

import (
	"fmt"
	"os"
	"os/exec"
	"path/filepath"
	"strings"

	"verif/engine/sym"
)

// raceQuery decides, for two traces, whether some pair of conflicting accesses can be
// unordered by happens-before in some schedule.  Clocks of sync events are 8-bit vectors.
func raceQuery(tt *sym.TermTable, sv *sym.Solver, t1, t2 []sym.SyncEvent, tag string, valueOrder bool, cold1, cold2 bool) (bool, string) {
	type ev struct {
		e     sym.SyncEvent
		clock *sym.Term // sync events only
	}
	mk := func(tr []sym.SyncEvent, th int) []ev {
		out := make([]ev, len(tr))
		for i, e := range tr {
			out[i] = ev{e: e}
			if e.Kind != "read" && e.Kind != "write" {
				out[i].clock = tt.Var(fmt.Sprintf("%s.t%d.c%d", tag, th, i), 8, nil)
			}
		}
		return out
	}
	a, b := mk(t1, 1), mk(t2, 2)
	var cons []*sym.Term
	lt := func(x, y *sym.Term) *sym.Term { return tt.Cmp(sym.OpUlt, x, y) }
	// program order and distinct clocks
	order := func(evs []ev) {
		var prev *sym.Term
		for _, e := range evs {
			if e.clock != nil {
				if prev != nil {
					cons = append(cons, lt(prev, e.clock))
				}
				prev = e.clock
			}
		}
	}
	order(a)
	order(b)
	for _, x := range a {
		for _, y := range b {
			if x.clock != nil && y.clock != nil {
				cons = append(cons, tt.Not(tt.Eq(x.clock, y.clock)))
			}
		}
	}
	// critical sections
	type section struct {
		lock, unlock *sym.Term
		read         bool
		mutex        string
	}
	sections := func(evs []ev) []section {
		var out []section
		open := map[string]int{}
		for _, e := range evs {
			switch e.e.Kind {
			case "lock", "rlock":
				out = append(out, section{lock: e.clock, read: e.e.Kind == "rlock", mutex: e.e.Loc})
				open[e.e.Loc] = len(out) - 1
			case "unlock", "runlock":
				if i, ok := open[e.e.Loc]; ok {
					out[i].unlock = e.clock
					delete(open, e.e.Loc)
				}
			}
		}
		return out
	}
	sa, sb := sections(a), sections(b)
	for _, x := range sa {
		for _, y := range sb {
			if x.mutex != y.mutex || (x.read && y.read) || x.unlock == nil || y.unlock == nil {
				continue
			}
			cons = append(cons, tt.Or(lt(x.unlock, y.lock), lt(y.unlock, x.lock)))
		}
	}
	// value consistency between traces explored from different pre-states: a read
	// inside a critical section saw the pre-state of its own trace, so it comes
	// before (cold trace) or after (warm trace) the other goroutine's protected write
	sectionOf := func(evs []ev, i int, secs []section) *section {
		// the innermost open section at position i
		var cur *section
		k := -1
		for p := 0; p <= i; p++ {
			switch evs[p].e.Kind {
			case "lock", "rlock":
				k++
				if k < len(secs) {
					cur = &secs[k]
				}
			case "unlock", "runlock":
				cur = nil
			}
		}
		return cur
	}
	if valueOrder {
		constrain := func(ws []ev, wsec []section, rs []ev, rsec []section, readerCold bool) {
			for i, w := range ws {
				if w.e.Kind != "write" {
					continue
				}
				sw := sectionOf(ws, i, wsec)
				if sw == nil || sw.unlock == nil {
					continue
				}
				for j, r := range rs {
					if r.e.Kind != "read" || r.e.Loc != w.e.Loc {
						continue
					}
					sr := sectionOf(rs, j, rsec)
					if sr == nil || sr.unlock == nil || sr.mutex != sw.mutex {
						continue
					}
					if readerCold {
						cons = append(cons, lt(sr.unlock, sw.lock))
					} else {
						cons = append(cons, lt(sw.unlock, sr.lock))
					}
				}
			}
		}
		constrain(a, sa, b, sb, cold2)
		constrain(b, sb, a, sa, cold1)
	}
	// happens-before from access i of xs to access j of ys: a release after i and an acquire before j on the same mutex
	hb := func(xs []ev, i int, ys []ev, j int) *sym.Term {
		var alts []*sym.Term
		for p := i + 1; p < len(xs); p++ {
			if xs[p].e.Kind != "unlock" && xs[p].e.Kind != "runlock" {
				continue
			}
			for q := 0; q < j; q++ {
				if ys[q].e.Kind != "lock" && ys[q].e.Kind != "rlock" {
					continue
				}
				if ys[q].e.Loc != xs[p].e.Loc || (xs[p].e.Kind == "runlock" && ys[q].e.Kind == "rlock") {
					continue
				}
				alts = append(alts, lt(xs[p].clock, ys[q].clock))
			}
		}
		return tt.Or(alts...)
	}
	for i, x := range a {
		if x.clock != nil {
			continue
		}
		for j, y := range b {
			if y.clock != nil || x.e.Loc != y.e.Loc || (x.e.Kind == "read" && y.e.Kind == "read") {
				continue
			}
			q := append(append([]*sym.Term(nil), cons...), tt.Not(hb(a, i, b, j)), tt.Not(hb(b, j, a, i)))
			res, _ := sv.Check(nil, q, nil)
			if res != sym.Unsat {
				return true, fmt.Sprintf("%s of %s in %s  ||  %s of %s in %s (%s)", x.e.Kind, x.e.Loc, x.e.At, y.e.Kind, y.e.Loc, y.e.At, res)
			}
		}
	}
	return false, ""
}

func init() {
	register(&Spec{
		ID:       "C14",
		Pkgs:     []string{"root", "rules", "filterutil", "lookup", "filterlist"},
		InitPkgs: []string{"filterutil", "rules", "filterlist", "lookup", "root"},
		Jobs: func(tier string) []Job {
			return []Job{
				{Pkg: "filterlist", Func: "verifC14Storage", Args: []int64{0}, Raw: true},
				{Pkg: "filterlist", Func: "verifC14Storage", Args: []int64{1}, Raw: true},
				{Pkg: "filterlist", Func: "verifC14File", Args: []int64{8}, Raw: true},
				{Pkg: "filterlist", Func: "verifC14File", Args: []int64{16}, Raw: true},
				{Pkg: "filterlist", Func: "verifC14StorageFile", Args: []int64{8}, Raw: true},
				{Pkg: "filterlist", Func: "verifC14StorageFile", Args: []int64{16}, Raw: true},
				{Pkg: "rules", Func: "verifC14Rule", Args: []int64{0}, Raw: true},
				{Pkg: "rules", Func: "verifC14Rule", Args: []int64{1}, Raw: true},
				{Pkg: "root", Func: "verifC14DNS"},
				// answer equality under section-granular interleavings
				{Pkg: "filterlist", Func: "verifC14AtomFile", Args: []int64{8}, Raw: true, Yield: true},
				{Pkg: "filterlist", Func: "verifC14AtomFile", Args: []int64{16}, Raw: true, Yield: true},
				{Pkg: "filterlist", Func: "verifC14AtomStorage", Args: []int64{0, 0}, Raw: true, Yield: true},
				{Pkg: "filterlist", Func: "verifC14AtomStorage", Args: []int64{0, 1}, Raw: true, Yield: true},
				{Pkg: "filterlist", Func: "verifC14AtomStorage", Args: []int64{1, 0}, Raw: true, Yield: true},
				{Pkg: "filterlist", Func: "verifC14AtomStorage", Args: []int64{2, 1}, Raw: true, Yield: true},
				{Pkg: "rules", Func: "verifC14AtomRule", Args: []int64{0}, Raw: true, Yield: true},
				{Pkg: "rules", Func: "verifC14AtomRule", Args: []int64{1}, Raw: true, Yield: true},
				{Pkg: "rules", Func: "verifC14AtomRule", Args: []int64{2}, Raw: true, Yield: true},
				{Pkg: "rules", Func: "verifC14AtomRule", Args: []int64{3}, Raw: true, Yield: true},
				{Pkg: "rules", Func: "verifC14AtomRule", Args: []int64{4}, Raw: true, Yield: true},
				{Pkg: "root", Func: "verifC14AtomDNS", Args: []int64{0}, Raw: true, Yield: true},
				{Pkg: "root", Func: "verifC14AtomDNS", Args: []int64{1}, Raw: true, Yield: true},
				{Pkg: "root", Func: "verifC14AtomNet", Args: []int64{0}, Raw: true, Yield: true},
				{Pkg: "root", Func: "verifC14AtomNet", Args: []int64{1}, Raw: true, Yield: true},
			}
		},
		Setup: func(e *sym.Engine, st *sym.State, l *sym.Loaded) {
			setupDNS(e, st, l)
			old := e.RedirectMatch
			e.RedirectMatch = func(name string) string {
				switch old(name) {
				case "verifPoolGet":
					return "verifPoolGetShared"
				case "verifPoolPut":
					return "verifPoolPutShared"
				}
				return ""
			}
		},
		MustReach: []string{"c14.storage", "c14.file", "c14.storagefile", "c14.rule", "c14.dns", "c14.atom.file", "c14.atom.storage", "c14.atom.rule", "c14.atom.dns", "c14.atom.net", "c14.atom.interleaved"},
		Bounds: map[string]string{
			"quick":    "two goroutines, one operation each, on four protected objects: RuleStorage.RetrieveRule (cold and warm cache, same and different index), FileRuleList.RetrieveRule (shared handle and read buffer), the storage over a file-backed list, NetworkRule.Match with a cold and a warm compiled pattern, DNSEngine.MatchRequest with the pooled request; for every pair of recorded path traces the solver decides whether two conflicting accesses can be unordered by happens-before in some schedule (the schedule is the solver's variable); answer equality: one operation (FileRuleList.RetrieveRule with symbolic line letters, RuleStorage.RetrieveRule over in-memory and file-backed lists cold and warm, NetworkRule.Match with five pattern kinds and symbolic URLs, DNSEngine.MatchRequest and NetworkEngine.Match over a real storage) is interrupted after its k-th mutex release (k an 8-bit solver variable) by the whole operation of a second goroutine on the same objects, and both answers must equal the sequential answers on fresh objects",
			"thorough": "same as quick",
		},
		Outside:     []string{"more than two goroutines or more than one operation per goroutine", "control flow that depends on the other goroutine's writes beyond the two pre-states (cold, warm)", "interleavings in which both operations are split (A1 B1 A2 B2): only those where one operation runs whole inside a gap of the other are executed; together with race freedom this covers every schedule of operations with at most one critical section each and the nesting schedules of the others", "the Go scheduler and memory model, races inside library code (regexp, bufio, sync.Pool itself)", "a reported potential race is replayed with go test -race on a stress test; only a reproduced report is a violation"},
		Assumptions: []string{"sync.Mutex/RWMutex give mutual exclusion and release->acquire ordering", "sync.Pool hands an object to one goroutine at a time between Get and Put; in the interleaving jobs Get hands out a new object (one of the behaviours the documentation allows)", "interleaving points: every mutex release and every file operation made while no mutex is held", "locations are (object, first field) pairs; the file offset and the read buffer are locations of the file model"},
		Rule:        "one trace per feasible path of one operation; one solver query per conflicting access pair and trace pair over integer clocks of the sync events",
		Extra: func(rc *RunCtx) {
			tt := sym.NewTermTable()
			sv, err := sym.NewSolver(tt, "", 20000)
			if err != nil {
				rc.Infra = append(rc.Infra, err.Error())
				return
			}
			defer sv.Close()
			pairs, queries := 0, 0
			var races []string
			type tr struct {
				ev   []sym.SyncEvent
				cold bool
				job  string
			}
			groups := map[string][]tr{}
			hasWarm := map[string]bool{}
			var order []string
			for _, r := range rc.Results {
				if r.Err != "" || r.Job.Vacuity || r.Job.Yield {
					continue
				}
				if len(r.Traces) == 0 {
					rc.Infra = append(rc.Infra, "no trace recorded for "+r.Job.Name())
					continue
				}
				cold := len(r.Job.Args) == 0 || r.Job.Args[0] == 0
				gname := r.Job.Func
				if len(r.Job.Args) > 0 && r.Job.Args[0] > 1 {
					// the argument is a size, not a cold/warm flag: its own group
					gname, cold = r.Job.Name(), true
				}
				if len(r.Job.Args) > 0 && r.Job.Args[0] == 1 {
					hasWarm[gname] = true
				}
				if _, ok := groups[gname]; !ok {
					order = append(order, gname)
				}
				nsync := 0
				for _, t := range r.Traces {
					groups[gname] = append(groups[gname], tr{t, cold, r.Job.Name()})
					for _, e := range t {
						if e.Kind != "read" && e.Kind != "write" {
							nsync++
						}
					}
				}
				rc.Samples = append(rc.Samples, map[string]interface{}{"kind": "trace", "job": r.Job.Name(), "paths": len(r.Traces), "sync_events": nsync, "first_trace": r.Traces[0]})
			}
			for _, fn := range order {
				g := groups[fn]
				for i, t1 := range g {
					for j, t2 := range g {
						if !t1.cold && !t2.cold && hasWarm[fn] {
							// both goroutines on the warm paths: covered, but no write can precede them; still checked
						}
						pairs++
						racy, what := raceQuery(tt, sv, t1.ev, t2.ev, fmt.Sprintf("%s.%d.%d", fn, i, j), hasWarm[fn], t1.cold, t2.cold)
						if racy {
							races = append(races, t1.job+" || "+t2.job+": "+what)
						}
					}
				}
			}
			queries = sv.Stats.Queries
			rc.Notes = append(rc.Notes, fmt.Sprintf("happens-before analysis: %d trace pairs, %d solver queries, %d potential races", pairs, queries, len(races)))
			if len(races) == 0 {
				return
			}
			// replay under the race detector
			seen := map[string]bool{}
			for _, r := range races {
				if !seen[r] {
					seen[r] = true
					rc.Notes = append(rc.Notes, "potential race: "+r)
				}
			}
			dir := filepath.Join(outDir, "replays", "C14", "race")
			os.MkdirAll(dir, 0o755)
			ov := fmt.Sprintf(`{"Replace": {"%s": "%s"}}`, filepath.Join(repoDir, "zz_verif_race_test.go"), filepath.Join(verifDir, "race", "race_test.go"))
			os.WriteFile(filepath.Join(dir, "overlay.json"), []byte(ov), 0o644)
			script := fmt.Sprintf("#!/bin/sh\n# replays the potential data race under the Go race detector; exits non-zero if a race is reported\ncd %s && GOFLAGS=-mod=mod GOPROXY=off GOSUMDB=off GOTOOLCHAIN=local go test -race -vet=off -count=1 -overlay %s -run '^TestVerifRace' .\n", repoDir, filepath.Join(dir, "overlay.json"))
			os.WriteFile(filepath.Join(dir, "run.sh"), []byte(script), 0o755)
			cmd := exec.Command("sh", filepath.Join(dir, "run.sh"))
			cmd.Env = goEnv()
			out, _ := cmd.CombinedOutput()
			if strings.Contains(string(out), "DATA RACE") {
				rc.Violations = append(rc.Violations, Violation{Label: "c14: data race", Job: "happens-before analysis", Replay: filepath.Join(dir, "run.sh"), Detail: races[0]})
			} else {
				rc.Notes = append(rc.Notes, "the race detector did not reproduce the potential race on the stress test (not reported as a violation): "+lastLines(string(out), 3))
			}
		},
	})
}
