package main

import (
	"fmt"
	"strings"
	"verif/engine/sym"

	"github.com/AdguardTeam/urlfilter/rules"
)

func init() {
	register(&Spec{
		ID:       "C11",
		Pkgs:     []string{"filterlist", "rules", "filterutil"},
		InitPkgs: []string{"filterutil", "rules", "filterlist"},
		Jobs: func(tier string) []Job {
			jobs := []Job{{Pkg: "filterlist", Func: "verifC11Vacuity", Vacuity: true}, {Pkg: "filterlist", Func: "verifC11Packing"}}
			maxN := 4
			if tier == "thorough" {
				maxN = 5
			}
			for n := 0; n <= maxN; n++ {
				jobs = append(jobs, Job{Pkg: "filterlist", Func: "verifC11String", Args: []int64{int64(n), 0}})
				if n <= maxN-1 {
					jobs = append(jobs, Job{Pkg: "filterlist", Func: "verifC11String", Args: []int64{int64(n), 1}})
				}
			}
			// a list that starts with a UTF-8 byte order mark
			for n := 1; n <= 3; n++ {
				jobs = append(jobs, Job{Pkg: "filterlist", Func: "verifC11BOM", Args: []int64{int64(n)}})
			}
			for k := 1; k <= 3; k++ {
				jobs = append(jobs, Job{Pkg: "filterlist", Func: "verifC11Storage", Args: []int64{int64(k)}})
			}
			// the storage scanner over several lists, some of which yield nothing
			for _, kn := range [][2]int64{{2, 2}, {3, 1}, {3, 2}, {4, 1}} {
				jobs = append(jobs, Job{Pkg: "filterlist", Func: "verifC11MultiScan", Args: []int64{kn[0], kn[1]}})
			}
			// a line as long as the scanner's read buffer, give or take a few bytes
			for _, k := range []int64{-1, 0, 1, 2, 3, 4, 5, 100, 102, 104} {
				jobs = append(jobs, Job{Pkg: "filterlist", Func: "verifC11Long", Args: []int64{k}})
			}
			// two retrievals in a row through the reused read buffer
			for _, nb := range [][2]int64{{4, 3}, {5, 3}, {5, 4}, {6, 4}} {
				jobs = append(jobs, Job{Pkg: "filterlist", Func: "verifC11FileSeq", Args: []int64{nb[0], nb[1]}})
			}
			fileN := 3
			if tier == "thorough" {
				fileN = 4
			}
			for n := 0; n <= fileN; n++ {
				for _, bl := range []int64{1, 2, 3} {
					jobs = append(jobs, Job{Pkg: "filterlist", Func: "verifC11File", Args: []int64{int64(n), bl}})
				}
				jobs = append(jobs, Job{Pkg: "filterlist", Func: "verifC11FileScan", Args: []int64{int64(n)}})
			}
			return jobs
		},
		Prepare: func(rc *RunCtx) error {
			// the real classification of every trimmed line over {a, #, space} up to 6 bytes
			for _, n := range []int{65, 4090, 4096, 4101, 5000} {
				if r, err := rules.NewRule("!"+strings.Repeat("a", n), 1); err != nil || r != nil {
					return fmt.Errorf("'!' and a run of %d 'a' is not a comment for the real parser", n)
				}
				if r, err := rules.NewRule(strings.Repeat("a", n), 1); err != nil || r == nil {
					return fmt.Errorf("a run of %d 'a' is not a rule for the real parser", n)
				} else if _, ok := r.(*rules.NetworkRule); !ok {
					return fmt.Errorf("a run of %d 'a' is not a network rule for the real parser", n)
				}
			}
			tab := map[string]uint64{}
			var rec func(s string)
			rec = func(s string) {
				if s != "" && s[0] != ' ' && s[len(s)-1] != ' ' {
					r, err := rules.NewRule(s, 1)
					var k uint64
					switch {
					case err != nil:
						k = 1
					case r == nil:
						k = 0
					default:
						switch r.(type) {
						case *rules.HostRule:
							k = 2
						case *rules.NetworkRule:
							k = 3
						default:
							k = 4
						}
					}
					tab[s] = k
				}
				if len(s) < 6 {
					for _, c := range "a# " {
						rec(s + string(c))
					}
				}
			}
			rec("")
			rc.Natives["classify"] = tab
			return nil
		},
		Setup: func(e *sym.Engine, st *sym.State, l *sym.Loaded) {
			setupNetip(e, st, l)
			e.Ctx["table:classify"] = curRun.Natives["classify"]
			e.Redirects[modPath+"/rules.NewRule"] = l.Pkgs[modPath+"/filterlist"].Func("verifNewRuleStub")
		},
		MustReach: []string{"c11.packing", "c11.scanned", "c11.storage", "c11.duplicate", "c11.file", "c11.filescan", "c11.long", "c11.multiscan", "c11.fileseq"},
		ContractStubs: "os.File is the engine's file model (content, offset, closed flag; a read may be short); a counterexample that needs a short read cannot be forced natively",
		Bounds: map[string]string{
			"quick":    "index packing for all int32 pairs (full width); in-memory list content of 0..4 symbolic bytes over {a, #, space, LF, CR} (lines are classified by a table of the real NewRule results for every line over {a,#,space}, computed natively each run, so counterexamples replay) scanned through the real RuleScanner / bufio.Reader / strings.Reader code and retrieved through the real RetrieveRule, IgnoreCosmetic on and off; CRLF variant; the same for a list that starts with a UTF-8 byte order mark (three concrete bytes, then 1..3 symbolic bytes over {a,LF}); file-backed list vs in-memory list on the same symbolic content of 0..3 bytes with a read buffer of 1..3 bytes and short reads (RetrieveRule at every offset; scanned sequence); two retrievals in a row at any two offsets of 4..6 bytes over {a,LF} through a reused buffer of 3..4 bytes; the scanner's line splitting on a line of buffer-size-5..buffer-size+1 filler bytes followed by four symbolic bytes over {a,LF} (lines longer than, equal to and shorter than the 4 KiB read buffer; also as a '!' comment); the storage scanner over 2..4 in-memory lists of 1..2 symbolic bytes each (lists that yield nothing in any position); storage of 1..3 lists with arbitrary int32 ids (negative, zero, extreme) and an arbitrary offset below 2^31",
			"thorough": "content up to 5 bytes (file-backed up to 4)",
		},
		Outside:     []string{"rules.NewRule beyond its results on lines over {a,#,space} (exact table) - other lines would be an uninterpreted classification", "the real os.File and operating system (file model: content, offset, closed flag, reads that deliver one byte or everything)", "contents longer than the bound other than the long-line shape (a filler, four symbolic bytes)", "multi-byte UTF-8 and NUL bytes"},
		Assumptions: []string{"bufio.Reader and strings.Reader are executed from their real bodies (not stubbed)"},
		Rule:        "content bytes symbolic; line structure forks; one state per feasible path",
	})
}
