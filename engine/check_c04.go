package main

import (
	"encoding/json"
	"fmt"
	"math/rand"
	"sort"
	"strings"

	"verif/engine/sym"

	"github.com/AdguardTeam/urlfilter/rules"
)

// modifier value menus of the C04 grammar: each entry is a list of values of one modifier.
var c04Menus = map[string][][]string{
	"tp":        {{"third-party"}, {"~third-party"}, {"first-party"}},
	"type":      {{"script"}, {"script", "image"}, {"~script"}, {"image", "~font"}, {"~script", "~image", "~other"}},
	"domain":    {{"zq.com"}, {"zq.com", "z.org"}, {"~zq.com"}, {"zq.com", "~q.zq.com"}, {"zq.*"}, {"~zq.*", "q.com"}, {"z.co.uk", "zq.*", "~q.z.co.uk"}, {"zq.*", "zq.qz"}, {"~zq.*", "~zq.qz"}, {"q.*", "zq.*", "q.zq"}},
	"denyallow": {{"zq.com"}, {"zq.com", "z.org"}, {"q.co.uk", "z.zq.com", "com"}},
	"dnstype":   {{"A"}, {"A", "AAAA"}, {"~A"}, {"~A", "AAAA"}, {"cname", "~MX", "TXT"}},
	"ctag":      {{"a"}, {"b", "a"}, {"~a"}, {"c", "~a", "b"}, {"~d", "~b"}},
	"client":    {{"a"}, {"'b'", "a"}, {"~a"}, {"1.2.3.4"}, {"1.2.3.0/24", "~1.2.3.4"}, {"2001:d00::/24"}, {"b", "1.2.0.0/16", "a", "~2001:dff::1"}, {"c", "b", "a", "ab"}, {"1.2.3.0/24", "2001:d00::/24"}, {"~1.2.0.0/16", "~2001:d00::/24"}, {"2001:d00::/24", "1.2.3.4", "a"}, {"1.3.0.0/16", "1.2.3.4"}, {"~1.3.0.0/16", "~1.2.3.0/24"}, {"2001:e00::/24", "2001:d00::1"}, {"9.0.0.0/8", "1.2.0.0/16", "1.2.3.4"},
		{`'a\'b'`}, {`"c\""`, "a"}, {`~'ab\''`, "b"}, {`'a\,b'`}},
}

var c04Order = []string{"tp", "type", "domain", "denyallow", "dnstype", "ctag", "client"}

func c04Render(mod string, vals []string) string {
	switch mod {
	case "tp", "type":
		return strings.Join(vals, ",")
	}
	return mod + "=" + strings.Join(vals, "|")
}

func permutations(vals []string) [][]string {
	if len(vals) <= 1 {
		return [][]string{append([]string(nil), vals...)}
	}
	var out [][]string
	for i := range vals {
		rest := append(append([]string(nil), vals[:i]...), vals[i+1:]...)
		for _, p := range permutations(rest) {
			out = append(out, append([]string{vals[i]}, p...))
		}
	}
	return out
}

type c04Rule struct {
	text string
	want map[string][]string // modifier -> intended values (for the native cross-check)
}

func enumerateC04(tier string, seed int64) []c04Rule {
	var out []c04Rule
	seen := map[string]bool{}
	add := func(mods map[string][]string) {
		var parts []string
		for _, m := range c04Order {
			if v, ok := mods[m]; ok {
				parts = append(parts, c04Render(m, v))
			}
		}
		text := "||example.org^$" + strings.Join(parts, ",")
		if seen[text] {
			return
		}
		seen[text] = true
		out = append(out, c04Rule{text: text, want: mods})
	}
	// every single modifier with every value set in every value order
	for _, m := range c04Order {
		for _, vals := range c04Menus[m] {
			for _, p := range permutations(vals) {
				add(map[string][]string{m: p})
			}
		}
	}
	rnd := rand.New(rand.NewSource(seed))
	nPairs, nFull := 40, 30
	if tier == "thorough" {
		nPairs, nFull = 400, 300
	}
	pick := func(m string) []string {
		vals := c04Menus[m][rnd.Intn(len(c04Menus[m]))]
		ps := permutations(vals)
		return ps[rnd.Intn(len(ps))]
	}
	for i := 0; i < nPairs; i++ {
		a, b := c04Order[rnd.Intn(len(c04Order))], c04Order[rnd.Intn(len(c04Order))]
		if a == b {
			continue
		}
		add(map[string][]string{a: pick(a), b: pick(b)})
	}
	for i := 0; i < nFull; i++ {
		mods := map[string][]string{}
		for _, m := range c04Order {
			if rnd.Intn(2) == 0 {
				mods[m] = pick(m)
			}
		}
		if len(mods) > 0 {
			add(mods)
		}
	}
	return out
}

// c04CrossCheck compares the parsed lists with the values written in the text (as sets).
func c04CrossCheck(rs []c04Rule) (int, []string) {
	n := 0
	var mm []string
	set := func(xs []string) string {
		ys := append([]string(nil), xs...)
		sort.Strings(ys)
		return strings.Join(ys, ",")
	}
	for _, cr := range rs {
		r, err := rules.NewNetworkRule(cr.text, 1)
		if err != nil {
			mm = append(mm, fmt.Sprintf("grammar rule rejected: %s: %v", cr.text, err))
			continue
		}
		got := rules.VerifModifierValues(r)
		for m, vals := range cr.want {
			n++
			var wantVals []string
			for _, v := range vals {
				if m == "client" {
					v = c04Unquote(v)
				}
				switch m {
				case "tp":
					if v == "first-party" {
						v = "~third-party"
					}
				case "dnstype":
					v = strings.ToUpper(v)
				}
				wantVals = append(wantVals, v)
			}
			if set(got[m]) != set(wantVals) {
				mm = append(mm, fmt.Sprintf("parsed %s values of %q are %v, text says %v", m, cr.text, got[m], wantVals))
			}
		}
		if len(mm) > 5 {
			break
		}
	}
	return n, mm
}

func init() {
	register(&Spec{
		ID:       "C04",
		Pkgs:     []string{"rules"},
		InitPkgs: []string{"filterutil", "rules"},
		Prepare: func(rc *RunCtx) error {
			crs := enumerateC04(rc.Tier, rc.Seed)
			nr := &nativeRules{}
			for _, cr := range crs {
				r, err := rules.NewNetworkRule(cr.text, 1)
				if err != nil {
					return fmt.Errorf("grammar rule rejected by the parser: %s: %v", cr.text, err)
				}
				nr.texts = append(nr.texts, cr.text)
				nr.rules = append(nr.rules, r)
			}
			// mask patterns for the hostname-request target harness are appended after the grammar rules
			rc.Natives["ngrammar"] = len(nr.texts)
			extra := enumerateMaskRules(1, 0, rc.Seed)
			for _, p := range []string{"/zq.", "/z-q.zq.", "/zq_", "://zq", "http://zq", "https://z", "zq.", ".zq", "z*q", "|zq", "zq|", "^zq", "zq^", "/zq./", "a/b"} {
				if r, err := rules.NewNetworkRule(p+"$domain=example.org", 1); err == nil && !r.IsRegexRule() {
					extra.texts = append(extra.texts, p+"$domain=example.org")
					extra.rules = append(extra.rules, r)
				}
			}
			nr.texts = append(nr.texts, extra.texts...)
			nr.rules = append(nr.rules, extra.rules...)
			rc.Natives["rules"] = nr
			rc.Natives["c04"] = crs
			// expected values per grammar rule, for the symbolic-side parse check (replayable)
			kw := map[string][]string{}
			for i, cr := range crs {
				kw["c04text"] = append(kw["c04text"], cr.text)
				var want []string
				for _, m := range c04Order {
					for _, v := range cr.want[m] {
						switch m {
						case "client":
							v = c04Unquote(v)
						case "tp":
							if v == "first-party" {
								v = "~third-party"
							}
						case "dnstype":
							v = strings.ToUpper(v)
						}
						want = append(want, m+"="+v)
					}
				}
				kw[fmt.Sprintf("c04want%d", i)] = want
			}
			rc.Natives["keywords"] = kw
			kb, _ := json.Marshal(kw)
			rc.ReplayFiles["VERIF_KEYWORDS"] = kb
			b, _ := json.Marshal(nr.texts)
			rc.ReplayFiles["VERIF_RULES"] = b
			return nil
		},
		Jobs: func(tier string) []Job {
			jobs := []Job{{Pkg: "rules", Func: "verifC04Vacuity", Vacuity: true}}
			crs := curRun.Natives["c04"].([]c04Rule)
			srcLens := []int64{-1, 1, 3, 4, 5, 6}
			hostLens := []int64{-1, 1, 4}
			if tier == "thorough" {
				srcLens = []int64{-1, 1, 2, 3, 5, 6, 8}
				hostLens = []int64{-1, 1, 3, 4, 6}
			}
			for i, cr := range crs {
				_, hasDomain := cr.want["domain"]
				_, hasDeny := cr.want["denyallow"]
				sl, hl := []int64{-1}, []int64{-1}
				if hasDomain {
					sl = srcLens
				}
				if hasDeny {
					hl = hostLens
				}
				for _, s := range sl {
					for _, st := range []int64{0, 1, 2} {
						if s == -1 && st != 0 {
							continue
						}
						for _, h := range hl {
							for _, ht := range []int64{0, 1, 2} {
								if h == -1 && ht != 0 {
									continue
								}
								jobs = append(jobs, Job{Pkg: "rules", Func: "verifC04", Args: []int64{int64(i), s, st, h, ht}})
							}
						}
					}
				}
			}
			for i := range crs {
				jobs = append(jobs, Job{Pkg: "rules", Func: "verifC04Parse", Args: []int64{int64(i)}})
			}
			ng := curRun.Natives["ngrammar"].(int)
			nall := len(curRun.Natives["rules"].(*nativeRules).texts)
			hostLs := []int64{2, 5, 8}
			if tier == "thorough" {
				hostLs = []int64{1, 2, 3, 5, 8, 11}
			}
			for from := ng; from < nall; from += 10 {
				c := 10
				if from+c > nall {
					c = nall - from
				}
				for _, L := range hostLs {
					jobs = append(jobs, Job{Pkg: "rules", Func: "verifC04Target", Args: []int64{int64(from), int64(c), L}})
				}
			}
			return jobs
		},
		Setup: func(e *sym.Engine, st *sym.State, l *sym.Loaded) {
			setupNetip(e, st, l)
			e.Ctx["native:rule"] = nativeRuleProvider(curRun.Natives["rules"].(*nativeRules))
			e.Ctx["keywords"] = curRun.Natives["keywords"]
		},
		MustReach: []string{"c04.match", "c04.nomatch", "c04.target.url", "c04.target.hostname", "c04.parse"},
		Bounds: map[string]string{
			"quick":    "rules: every single modifier of the grammar with every value set of its menu in every value order (1..4 values, negations, wildcard TLD, IPv4/IPv6/CIDR/quoted clients) plus 40 seeded pairs and 30 seeded multi-modifier rules; request: third-party flag, hostname-request flag, one-hot content type, 16-bit DNS type, client name 0..1 bytes, client IP absent / IPv4 with two symbolic bytes / IPv6 with two symbolic bytes, 0..2 sorted one-byte tags all symbolic; source host 1,3,4,5,6 symbolic bytes over {z,q,.} plus tail {'', .com, .co.uk} or empty; request host 1,4 bytes over {z,q,d,.} (d: a hexadecimal letter, so that hosts pass the IsProbablyIP character test without being addresses) plus tail or empty",
			"thorough": "400 pairs and 300 multi-modifier rules; source hosts up to 8 and request hosts up to 6 symbolic bytes",
		},
		Outside:     []string{"the pattern conjunct for URL requests (C03/C05): there the pattern is ||example.org^ and the URL is fixed; for hostname requests the choice of the match target is checked on every 1-token mask pattern and a menu of scheme/path patterns with hostnames of 2,5,8 symbolic bytes", "zero or multi-bit request types (not a documented request)", "the Public Suffix List beyond the validated compact model", "netip.Prefix.Contains is executed from its real body on both sides of the comparison"},
		Assumptions: []string{"PSL model (validated exhaustively each run)", "client tags of the request are sorted (documented on the field)", "the reference uses the parsed value lists; that they equal the values written in the rule text (as sets) is cross-checked natively for every grammar rule"},
		Rule:        "outer enumeration of grammar rules (parsed natively); per rule and host-length shape one symbolic request; IP family and tag count fork",
		Validate: func(l *sym.Loaded, tier string, seed int64) (int, []string) {
			n, mm := c04CrossCheck(curRun.Natives["c04"].([]c04Rule))
			m := *sym.DefaultPSL
			n2, mm2 := sym.ValidatePSL(&m, 7)
			return n + n2, append(mm, mm2...)
		},
	})
}

// c04Unquote: the documented reading of one $client value: an optional ~, then a name that may be
// enclosed in single or double quotes, inside which \<quote> stands for the quote; \, stands for a comma.
func c04Unquote(v string) string {
	neg := ""
	if strings.HasPrefix(v, "~") {
		neg, v = "~", v[1:]
	}
	if len(v) >= 2 && (v[0] == '\'' || v[0] == '"') && v[len(v)-1] == v[0] {
		q := string(v[0])
		v = strings.ReplaceAll(v[1:len(v)-1], "\\"+q, q)
	}
	v = strings.ReplaceAll(v, "\\,", ",")
	return neg + v
}
