package main

func init() {
	register(&Spec{
		ID:       "C16",
		Pkgs:     []string{"rules"},
		InitPkgs: []string{"filterutil", "rules"},
		Jobs: func(tier string) []Job {
			return []Job{
				{Pkg: "rules", Func: "verifC16"},
				{Pkg: "rules", Func: "verifC16Monotone"},
				{Pkg: "rules", Func: "verifC16Vacuity", Vacuity: true},
			}
		},
		MustReach: []string{"c16.exception", "c16.noexception", "c16.monotone"},
		Bounds: map[string]string{
			"quick":    "unbounded in the fields read: 64-bit option word, 32-bit type mask and exception flag fully symbolic under the parser's representation invariant",
			"thorough": "same as quick (the query is already full width)",
		},
		Outside:     []string{"Engine.GetCosmeticResult's use of the three bits inside the cosmetic engine (C15)"},
		Assumptions: []string{"InvRule (DESIGN §2.10) on the option word; counterexamples are replayed through rules.NewNetworkRule from rule text"},
		Rule:        "one state per feasible path of the harness; an assertion query is one (path, assertion) pair decided by z3",
	})
}
