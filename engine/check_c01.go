package main

import (
	"verif/engine/sym"
)

const (
	qRetrieveNet  = "(*" + modPath + "/filterlist.RuleStorage).RetrieveNetworkRule"
	qMatchPattern = "(*" + modPath + "/rules.NetworkRule).matchPattern"
	qHashBetween  = modPath + "/filterutil.FastHashBetween"
)

// setupTables installs the stubs shared by the lookup-table harnesses.
func setupTables(e *sym.Engine, st *sym.State, l *sym.Loaded) {
	setupNetip(e, st, l)
	e.Redirects[qRetrieveNet] = l.Pkgs[modPath].Func("verifRetrieveNetworkRule")
	e.Redirects[qMatchPattern] = l.Pkgs[modPath+"/rules"].Func("verifMatchPatternLiteral")
	e.Redirects[qHashBetween] = l.Pkgs[modPath+"/filterutil"].Func("verifHashSummary")
	e.InjectiveUF = "H/"
}

func c01Shape(specs ...[2]int) int64 {
	var s int64
	for i, sp := range specs {
		s |= int64(sp[0]) << (8 * i)
		s |= int64(sp[1]) << (8*i + 4)
	}
	return s
}

func init() {
	register(&Spec{
		ID:       "C01",
		Pkgs:     []string{"root", "rules", "filterutil", "lookup", "filterlist"},
		InitPkgs: []string{"filterutil", "rules", "filterlist", "lookup", "root"},
		Jobs: func(tier string) []Job {
			jobs := []Job{{Pkg: "root", Func: "verifC01Vacuity", Vacuity: true}}
			for _, n := range []int64{0, 1, 4, 5, 6} {
				jobs = append(jobs, Job{Pkg: "filterutil", Func: "verifHashLemma", Args: []int64{n, 1, 1}, Raw: true})
			}
			jobs = append(jobs, Job{Pkg: "filterutil", Func: "verifHashLemmaBytes", Raw: true})
			// rule shapes: (shortcut length, number of $domain values)
			shapes1 := [][2]int{{5, 0}, {6, 0}, {7, 0}, {3, 0}, {5, 1}, {0, 1}, {2, 1}, {0, 2}}
			urlLens := []int64{4, 5, 6, 8}
			srcs := [][2]int64{{-1, 0}, {2, 1}, {4, 0}, {4, 2}}
			if tier == "thorough" {
				urlLens = []int64{0, 4, 5, 6, 7, 8, 10}
				srcs = [][2]int64{{-1, 0}, {1, 1}, {2, 2}, {4, 0}, {5, 1}, {3, 2}}
			}
			urlLens2 := []int64{5, 6}
			if tier == "thorough" {
				urlLens2 = []int64{4, 5, 6, 7}
			}
			add := func(n int64, shape int64, needsSrc bool) {
				uls := urlLens
				if n >= 2 {
					uls = urlLens2
				}
				for _, ul := range uls {
					for _, s := range srcs {
						if !needsSrc && s[0] != -1 {
							continue
						}
						domLens := []int64{4}
						if needsSrc {
							domLens = []int64{2, 4}
						}
						for _, domLen := range domLens {
							jobs = append(jobs, Job{Pkg: "root", Func: "verifC01", Args: []int64{n, shape, domLen, ul, s[0], s[1]}})
						}
					}
				}
			}
			for _, a := range shapes1 {
				add(1, c01Shape(a), a[1] > 0)
			}
			pairs := [][2][2]int{{{5, 0}, {5, 0}}, {{5, 0}, {6, 0}}, {{6, 0}, {6, 0}}, {{5, 0}, {3, 0}}, {{5, 1}, {0, 1}}, {{0, 1}, {0, 1}}, {{2, 1}, {5, 0}}, {{3, 0}, {3, 0}}}
			if tier == "thorough" {
				pairs = append(pairs, [2][2]int{{7, 0}, {5, 0}}, [2][2]int{{0, 2}, {0, 1}}, [2][2]int{{5, 1}, {5, 1}}, [2][2]int{{6, 1}, {2, 0}})
			}
			for _, p := range pairs {
				add(2, c01Shape(p[0], p[1]), p[0][1] > 0 || p[1][1] > 0)
			}
			// shortcuts over {h,t,p,s,:,/,w}: the "any URL" shortcuts (http, https://, ws:, wss:) are kept out of the shortcut table
			for _, sl := range []int{5, 6, 8} {
				for _, ul := range []int64{6, 9} {
					jobs = append(jobs, Job{Pkg: "root", Func: "verifC01", Args: []int64{1, c01Shape([2]int{sl, 0}), 104, ul, -1, 0}})
				}
			}
			jobs = append(jobs, Job{Pkg: "root", Func: "verifC01", Args: []int64{2, c01Shape([2]int{5, 0}, [2]int{6, 0}), 104, 6, -1, 0}})
			// $domain values of different lengths (a domain and one of its subdomains), source host below both
			for _, sh := range []int64{c01Shape([2]int{0, 1}, [2]int{0, 1}), c01Shape([2]int{5, 1}, [2]int{0, 1}), c01Shape([2]int{0, 1}, [2]int{0, 2})} {
				for _, dl := range []int64{42, 24} {
					for _, s := range [][2]int64{{4, 0}, {4, 1}, {5, 0}} {
						jobs = append(jobs, Job{Pkg: "root", Func: "verifC01", Args: []int64{2, sh, dl, 5, s[0], s[1]}})
					}
				}
			}
			// a deep source host: the $domain value sits between the registrable domain and the full host name
			for _, sl := range []int64{7, 8} {
				jobs = append(jobs, Job{Pkg: "root", Func: "verifC01", Args: []int64{1, c01Shape([2]int{0, 1}), 6, 4, sl, 0}})
				jobs = append(jobs, Job{Pkg: "root", Func: "verifC01", Args: []int64{1, c01Shape([2]int{0, 1}), 5, 4, sl, 0}})
			}
			// the real hash function on 5-byte windows over {a,c,/} (collisions exist: "aaac/" and "aac/a"): counterexamples replay
			for _, sh := range []int64{c01Shape([2]int{5, 0}), c01Shape([2]int{5, 0}, [2]int{5, 0}), c01Shape([2]int{6, 0}, [2]int{5, 0})} {
				n := int64(1)
				if sh > 0xff {
					n = 2
				}
				for _, ul := range []int64{5, 6} {
					jobs = append(jobs, Job{Pkg: "root", Func: "verifC01", Args: []int64{n, sh, 204, ul, -1, 0}, RealHash: true})
				}
			}
			// three rules in the shortcut table (histogram choice) and a mix of all three tables
			add3 := func(shape int64, needsSrc bool) {
				for _, ul := range []int64{5, 6} {
					s := [2]int64{-1, 0}
					if needsSrc {
						s = [2]int64{2, 1}
					}
					jobs = append(jobs, Job{Pkg: "root", Func: "verifC01", Args: []int64{3, shape, 4, ul, s[0], s[1]}})
				}
			}
			add3(c01Shape([2]int{5, 0}, [2]int{5, 0}, [2]int{5, 0}), false)
			add3(c01Shape([2]int{6, 0}, [2]int{5, 0}, [2]int{6, 0}), false)
			add3(c01Shape([2]int{5, 0}, [2]int{0, 1}, [2]int{3, 0}), true)
			if tier == "thorough" {
				add(3, c01Shape([2]int{5, 0}, [2]int{5, 0}, [2]int{5, 0}), false)
				add(3, c01Shape([2]int{5, 0}, [2]int{0, 1}, [2]int{3, 0}), true)
			}
			return jobs
		},
		Setup:     setupTables,
		AbstractHash: true,
		MustReach: []string{"c01.match", "hash.lemma"},
		Bounds: map[string]string{
			"quick":    "1..3 rules with literal patterns (three rules with URLs of 5..6 bytes; URL-like shortcuts over {h,t,p,s,:,/,w} of 5,6,8 bytes): shortcut of 0,2,3,5,6,7 symbolic bytes over {a,b,:,/} (below, at and above the table's window length), 0..2 $domain values of 2 or 4 symbolic bytes over {z,q,.,*} (incl. wildcard TLD; two rules also with values of different lengths, i.e. a domain and its subdomain), distinct storage indexes; URL of 4,5,6,8 symbolic bytes (5,6 with two rules); source host absent or 1..4 symbolic bytes plus a PSL tail (one rule: also 7..8 bytes, i.e. up to four labels, with $domain values of 5 or 6 bytes); the hash is an uninterpreted function of the window bytes (arbitrary collisions); plus real-hash jobs: the real FastHashBetween body on shortcuts and URLs of 5..6 bytes over {a,c,/}",
			"thorough": "up to 3 rules, URLs up to 11 bytes, more shape pairs and source hosts",
		},
		Outside:     []string{"rule storage and parser (perfect storage stub; C11, C13)", "the compiled pattern (literal patterns: accepts iff the lower-cased URL contains the literal; C03)", "real djb2 collisions as opposed to arbitrary ones, except in the real-hash jobs (shortcut table, 1..2 rules, shortcuts and URLs over {a,c,/} where the real function collides on 5-byte windows): elsewhere a counterexample that needs a collision cannot be replayed natively and is reported as a note", "more than 3 rules, longer URLs, other modifiers than $domain"},
		Assumptions: []string{"RetrieveNetworkRule(idx) returns the rule registered under idx", "FastHashBetween == uninterpreted function of the window bytes (lemma checked on the real body each run)", "PSL model"},
		Rule:        "rule shapes and lengths are job parameters; bytes, indexes and hash values symbolic; bucket aliasing forks",
		Validate: func(l *sym.Loaded, tier string, seed int64) (int, []string) {
			m := *sym.DefaultPSL
			return sym.ValidatePSL(&m, 6)
		},
	})
}
