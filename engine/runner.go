package main

import (
	"crypto/sha256"
	"encoding/hex"
	"encoding/json"
	"fmt"
	"os"
	"os/exec"
	"path/filepath"
	"runtime/debug"
	"sort"
	"strconv"
	"strings"
	"sync"
	"time"

	"verif/engine/sym"

	"golang.org/x/tools/go/ssa"
)

// repoDir is the tree under test: /repo, or a scratch worktree given in VERIF_REPO
// (used only by seedtest.py to check seeded changes without touching /repo).
var repoDir = func() string {
	if d := os.Getenv("VERIF_REPO"); d != "" {
		return d
	}
	return "/repo"
}()

// outDir is where evidence and kept replays go: /verif, or a scratch directory for VERIF_REPO runs.
var outDir = func() string {
	if os.Getenv("VERIF_REPO") != "" {
		d := filepath.Join(os.TempDir(), fmt.Sprintf("gosym-alt-%d", os.Getpid()))
		os.MkdirAll(d, 0o755)
		return d
	}
	return "/verif"
}()

const (
	verifDir  = "/verif"
	modPath   = "github.com/AdguardTeam/urlfilter"
	harnessIn = "/verif/harness"
)

// pkgDirs maps harness directory names to (repo sub-directory, import path, package name).
var pkgDirs = map[string][3]string{
	"root":       {"", modPath, "urlfilter"},
	"rules":      {"rules", modPath + "/rules", "rules"},
	"lookup":     {"lookup", modPath + "/lookup", "lookup"},
	"filterlist": {"filterlist", modPath + "/filterlist", "filterlist"},
	"filterutil": {"filterutil", modPath + "/filterutil", "filterutil"},
	"proxy":      {"proxy", modPath + "/proxy", "proxy"},
}

// Job is one symbolic execution of a harness entry point with concrete int arguments.
type Job struct {
	Pkg   string // harness dir name ("rules", "root", ...)
	Func  string
	Args  []int64
	Vacuity bool // the job must report the assertion labelled "vacuity" as violated
	Raw     bool // run without redirects/summaries (lemmas about the real bodies)
	NoMerge bool
	RealHash bool // the table harness runs with the real hash function instead of the uninterpreted summary
	Redirect map[string]string // extra redirects of this job: callee -> harness function of the job's package
	Yield   bool // releases of a mutex call the harness hook that may run the other goroutine's operation (C14)
}

func (j Job) Name() string {
	s := j.Pkg + "." + j.Func
	if len(j.Args) > 0 {
		var a []string
		for _, x := range j.Args {
			a = append(a, fmt.Sprint(x))
		}
		s += "(" + strings.Join(a, ",") + ")"
	}
	return s
}

// Spec describes one property check.
type Spec struct {
	ID         string
	Pkgs       []string // harness dir names whose packages are loaded and get overlay files
	InitPkgs   []string // harness dir names whose package init is interpreted (in order)
	Jobs       func(tier string) []Job
	Setup      func(e *sym.Engine, st *sym.State, l *sym.Loaded) // per-worker: stubs, redirects, natives
	ContractStubs string // non-empty: library contract stubs may admit values the real library never produces
	AbstractHash bool // the hash is an uninterpreted function: counterexamples may need collisions the real hash lacks
	Prepare    func(rc *RunCtx) error                            // once per run, before jobs are listed
	MustReach  []string
	Bounds     map[string]string // tier -> human-readable bound
	Outside    []string
	Assumptions []string
	Rule       string
	TimeoutMs  int
	// Validate runs translator/stub validation natively; returns number of cases and mismatches.
	Validate func(l *sym.Loaded, tier string, seed int64) (n int, mismatches []string)
	// Extra lets a check add property-specific work (returns extra violations / notes)
	Extra func(rc *RunCtx)
}

type JobResult struct {
	Job      Job
	Events   []sym.Event
	Stats    sym.Stats
	Solver   sym.SolverStats
	Reach    map[string]int
	Encoded  []string
	Stubs    map[string]int
	Asserts  map[string]*sym.AssertStat
	Err      string
	Seconds  float64
	Terms    int
	Outside  map[string]int
	Traces   [][]sym.SyncEvent
	CrossChecked, CrossUnknown int
}

var curRun *RunCtx

// RunCtx is the state of one check run.
type RunCtx struct {
	Spec     *Spec
	Tier     string
	Seed     int64
	Loaded   *sym.Loaded
	Overlay  map[string][]byte // virtual path -> content
	OverlayFiles map[string]string // virtual path -> real file (for go test -overlay)
	Results  []*JobResult
	Known    map[string]bool
	KnownLines []string
	Violations []Violation
	Notes    []string
	Infra    []string
	Samples  []interface{}
	ReplayDir string
	ReplayFiles map[string][]byte // env var name -> file content handed to native replays
	Natives  map[string]interface{} // data shared by Setup hooks (read-only)
	t0       time.Time
}

type Violation struct {
	Label  string
	Job    string
	Replay string
	Detail string
}

func goEnv() []string {
	return append(os.Environ(), "GOFLAGS=-mod=mod", "GOPROXY=off", "GOSUMDB=off", "GOTOOLCHAIN=local")
}

// buildOverlay prepares harness overlay files for the given harness dirs.
func buildOverlay(dirs []string, scratch string) (map[string][]byte, map[string]string, error) {
	ov := map[string][]byte{}
	files := map[string]string{}
	tmpl, err := os.ReadFile(filepath.Join(harnessIn, "lib.go.tmpl"))
	if err != nil {
		return nil, nil, err
	}
	for _, d := range dirs {
		info, ok := pkgDirs[d]
		if !ok {
			return nil, nil, fmt.Errorf("unknown harness dir %q", d)
		}
		lib := strings.ReplaceAll(string(tmpl), "package PKGNAME", "package "+info[2])
		vlib := filepath.Join(repoDir, info[0], "zz_verif_lib.go")
		real := filepath.Join(scratch, d+"_zz_verif_lib.go")
		if err := os.WriteFile(real, []byte(lib), 0o644); err != nil {
			return nil, nil, err
		}
		ov[vlib] = []byte(lib)
		files[vlib] = real
		matches, _ := filepath.Glob(filepath.Join(harnessIn, d, "*.go"))
		sort.Strings(matches)
		for _, m := range matches {
			b, err := os.ReadFile(m)
			if err != nil {
				return nil, nil, err
			}
			v := filepath.Join(repoDir, info[0], filepath.Base(m))
			ov[v] = b
			files[v] = m
		}
		if d == "filterlist" {
			// the one constructor of file-backed lists used by the harnesses (same text as mkoverlay.py writes):
			// it sets the unexported read buffer when the type still has one
			src, _ := os.ReadFile(filepath.Join(repoDir, info[0], "rulelist.go"))
			note, field := "", ", buffer: make([]byte, bufLen)"
			if !strings.Contains(string(src), "\tbuffer []byte") {
				note, field = " (this tree has no buffer field: bufLen is ignored)", ""
			}
			gen := "// Code generated by the verification driver.\npackage filterlist\n\nimport \"os\"\n\n" +
				"// verifNewFileList: a file-backed list over f with a read buffer of bufLen bytes" + note + ".\n" +
				"func verifNewFileList(id int, f *os.File, bufLen int) *FileRuleList {\n\treturn &FileRuleList{ID: id, File: f" + field + "}\n}\n"
			v := filepath.Join(repoDir, info[0], "zz_verif_gen.go")
			real := filepath.Join(scratch, "filterlist_zz_verif_gen.go")
			if err := os.WriteFile(real, []byte(gen), 0o644); err != nil {
				return nil, nil, err
			}
			ov[v] = []byte(gen)
			files[v] = real
		}
	}
	return ov, files, nil
}

func runCheck(spec *Spec, tier string, seed int64) int {
	rc := &RunCtx{Spec: spec, Tier: tier, Seed: seed, Known: map[string]bool{}, t0: time.Now(), ReplayFiles: map[string][]byte{}, Natives: map[string]interface{}{}}
	curRun = rc
	scratch, err := os.MkdirTemp("", "gosym-"+spec.ID+"-")
	if err != nil {
		fmt.Println("INFRA: cannot create scratch dir:", err)
		return 2
	}
	defer os.RemoveAll(scratch)
	rc.ReplayDir = scratch
	rc.Overlay, rc.OverlayFiles, err = buildOverlay(spec.Pkgs, scratch)
	if err != nil {
		fmt.Println("INFRA:", err)
		return 2
	}
	// known findings first (native witnesses)
	rc.loadKnown()

	var patterns []string
	for _, d := range spec.Pkgs {
		patterns = append(patterns, pkgDirs[d][1])
	}
	t0 := time.Now()
	rc.Loaded, err = sym.Load(repoDir, patterns, rc.Overlay)
	if err != nil {
		fmt.Println("INFRA: load failed:", err)
		rc.Infra = append(rc.Infra, "load: "+err.Error())
		rc.writeEvidence(2)
		return 2
	}
	fmt.Printf("[%s] loaded SSA in %.1fs\n", spec.ID, time.Since(t0).Seconds())

	if spec.Prepare != nil {
		if err := spec.Prepare(rc); err != nil {
			fmt.Println("INFRA: prepare:", err)
			rc.Infra = append(rc.Infra, "prepare: "+err.Error())
			rc.writeEvidence(2)
			return 2
		}
	}
	jobs := spec.Jobs(tier)
	if js := os.Getenv("GOSYM_JOB"); js != "" {
		// e.g. GOSYM_JOB="rules.verifRegexRules(3178,1,2)"
		var j Job
		open := strings.Index(js, "(")
		dot := strings.Index(js, ".")
		j.Pkg, j.Func = js[:dot], js[dot+1:open]
		for _, a := range strings.Split(strings.TrimSuffix(js[open+1:], ")"), ",") {
			if a = strings.TrimSpace(a); a != "" {
				v, _ := strconv.ParseInt(a, 10, 64)
				j.Args = append(j.Args, v)
			}
		}
		// inherit the flags (Raw, Yield, RealHash, Redirect, ...) of the registered job of that name
		for _, rj := range jobs {
			if rj.Name() == j.Name() {
				j = rj
			}
		}
		jobs = []Job{j}
	}
	if only := os.Getenv("GOSYM_ONLY"); only != "" {
		var sel []Job
		for _, j := range jobs {
			if strings.Contains(j.Name(), only) {
				sel = append(sel, j)
			}
		}
		jobs = sel
	}
	rc.runJobs(jobs)

	if spec.Extra != nil {
		spec.Extra(rc)
	}

	// translator / stub validation
	nValidated := 0
	if spec.Validate != nil {
		n, mm := spec.Validate(rc.Loaded, tier, seed)
		nValidated = n
		for _, m := range mm {
			rc.Infra = append(rc.Infra, "validation mismatch: "+m)
		}
	}

	rc.processEvents()
	code := rc.verdict()
	rc.writeEvidenceFull(code, nValidated)
	return code
}

// runJobs executes jobs on a pool of workers, each with its own engine.
func (rc *RunCtx) runJobs(jobs []Job) {
	nw := 14
	if len(jobs) < nw {
		nw = len(jobs)
	}
	if nw == 0 {
		return
	}
	ch := make(chan Job)
	var mu sync.Mutex
	var wg sync.WaitGroup
	for w := 0; w < nw; w++ {
		wg.Add(1)
		go func() {
			defer wg.Done()
			for j := range ch {
				if os.Getenv("GOSYM_PROGRESS") != "" {
					fmt.Printf("START %s\n", j.Name())
				}
				r := rc.runJob(j)
				if os.Getenv("GOSYM_PROGRESS") != "" {
					fmt.Printf("DONE  %s %.1fs paths=%d err=%s\n", j.Name(), r.Seconds, r.Stats.Paths, r.Err)
				}
				mu.Lock()
				rc.Results = append(rc.Results, r)
				mu.Unlock()
			}
		}()
	}
	for _, j := range jobs {
		ch <- j
	}
	close(ch)
	wg.Wait()
	sort.Slice(rc.Results, func(a, b int) bool { return rc.Results[a].Job.Name() < rc.Results[b].Job.Name() })
}

func (rc *RunCtx) runJob(j Job) (res *JobResult) {
	res = &JobResult{Job: j}
	t0 := time.Now()
	tmo := rc.Spec.TimeoutMs
	if tmo == 0 {
		tmo = 60000
	}
	e, err := sym.NewEngine(rc.Loaded.Prog, os.Getenv("GOSYM_SOLVER"), tmo)
	if err != nil {
		res.Err = err.Error()
		return res
	}
	defer e.Close()
	defer func() {
		res.Seconds = time.Since(t0).Seconds()
		res.Events = e.Events
		res.Stats = e.Stats
		res.Solver = e.Solver.Stats
		res.Reach = e.Reach
		res.Stubs = e.StubsUsed
		res.Asserts = e.AssertLabels
		res.Terms = e.TT.NumTerms()
		res.Outside = e.Outside
		res.Traces = e.Traces
		res.CrossChecked, res.CrossUnknown = e.CrossChecked, e.CrossUnknown
		for f := range e.Encoded {
			res.Encoded = append(res.Encoded, f)
		}
		sort.Strings(res.Encoded)
		if r := recover(); r != nil {
			res.Err = fmt.Sprintf("%v", r)
			if os.Getenv("GOSYM_DEBUG") != "" {
				res.Err += "\n" + string(debug.Stack())
			}
		}
	}()
	e.NoMerge = j.NoMerge
	maxSecs := 1500
	if v, err := strconv.Atoi(os.Getenv("GOSYM_MAXSECS")); err == nil && v > 0 {
		maxSecs = v
	}
	e.Deadline = time.Now().Add(time.Duration(maxSecs) * time.Second)
	e.Trace = os.Getenv("GOSYM_TRACE") != ""
	e.Ctx["known"] = rc.Known
	e.CrossSolver = "cvc5"
	e.CrossEvery = 97
	if rc.Tier == "thorough" {
		e.CrossEvery = 23
	}
	if v, err := strconv.Atoi(os.Getenv("GOSYM_CROSS")); err == nil {
		e.CrossEvery = v
	}
	if os.Getenv("GOSYM_FORKS") != "" {
		e.ForkSites = map[string]int{}
		go func() {
			for {
				time.Sleep(15 * time.Second)
				fmt.Printf("---- %s: steps=%d forks=%d merges=%d fails=%d paths=%d queries=%d\n", j.Name(), e.Stats.Steps, e.Stats.Forks, e.Stats.Merges, e.Stats.MergeFails, e.Stats.Paths, e.Solver.Stats.Queries)
				type kv struct { k string; v int }
				var l []kv
				for k, v := range e.ForkSites { l = append(l, kv{k, v}) }
				sort.Slice(l, func(a, b int) bool { return l[a].v > l[b].v })
				for i := 0; i < len(l); i++ { if i >= 15 && !strings.HasPrefix(l[i].k, "MERGEFAIL") { continue }; fmt.Printf("   %6d %s\n", l[i].v, l[i].k) }
			}
		}()
	}
	st := e.NewState()
	for _, d := range rc.Spec.InitPkgs {
		p := rc.Loaded.Pkgs[pkgDirs[d][1]]
		if p == nil {
			panic("package not loaded: " + d)
		}
		e.RunInit(st, p)
	}
	if rc.Spec.Setup != nil {
		rc.Spec.Setup(e, st, rc.Loaded)
	}
	if j.Raw {
		e.Redirects = map[string]*ssa.Function{}
		e.RedirectMatch = nil
	}
	pkg := rc.Loaded.Pkgs[pkgDirs[j.Pkg][1]]
	if pkg == nil {
		panic("package not loaded: " + j.Pkg)
	}
	for callee, target := range j.Redirect {
		f := pkg.Func(target)
		if f == nil {
			panic("redirect target not found: " + target)
		}
		e.Redirects[callee] = f
	}
	if j.RealHash {
		delete(e.Redirects, qHashBetween)
		e.InjectiveUF = ""
	}
	if f := pkg.Func("verifSyncPoolGet"); f != nil {
		e.Redirects["(*sync.Pool).Get"] = f
		e.Redirects["(*sync.Pool).Put"] = pkg.Func("verifSyncPoolPut")
	}
	if j.Yield {
		e.Redirects["(*sync.Mutex).Unlock"] = pkg.Func("verifYieldMutex")
		e.Redirects["(*sync.RWMutex).Unlock"] = pkg.Func("verifYieldRW")
		e.Redirects["(*sync.RWMutex).RUnlock"] = pkg.Func("verifYieldRRW")
		e.Redirects["(*sync.Mutex).Lock"] = pkg.Func("verifLockMutex")
		e.Redirects["(*sync.RWMutex).Lock"] = pkg.Func("verifLockRW")
		e.Redirects["(*sync.RWMutex).RLock"] = pkg.Func("verifRLockRW")
		e.Redirects["(*os.File).Seek"] = pkg.Func("verifFileSeek")
		e.Redirects["(*os.File).Read"] = pkg.Func("verifFileRead")
		if pkg.Func("verifPoolGetFresh") != nil {
			// the pool is not a critical section: it never hands one object to two holders
			e.RedirectPkg = pkg
			e.RedirectMatch = func(name string) string {
				if strings.Contains(name, "syncutil.Pool[") && strings.Contains(name, ").Get") {
					return "verifPoolGetFresh"
				}
				if strings.Contains(name, "syncutil.Pool[") && strings.Contains(name, ").Put") {
					return "verifPoolPutNop"
				}
				return ""
			}
		}
	}
	fn := pkg.Func(j.Func)
	if fn == nil {
		panic("harness function not found: " + j.Name())
	}
	args := make([]sym.Value, len(j.Args))
	for i, a := range j.Args {
		args[i] = e.TT.Int(a)
	}
	e.Encoded = map[string]bool{}
	e.Run(st, fn, args)
	if e.ForkSites != nil {
		for k, v := range e.ForkSites {
			fmt.Printf("END %6d %s\n", v, k)
		}
	}
	return res
}

// ---------------------------------------------------------------- events -> verdict

type replayOutcome struct {
	outcome string // "violation", "skip", "ok", "error"
	output  string
	dir     string
}

func digest(parts ...string) string {
	h := sha256.New()
	for _, p := range parts {
		h.Write([]byte(p))
		h.Write([]byte{0})
	}
	return hex.EncodeToString(h.Sum(nil))[:12]
}

// replayNative runs the harness natively with the model and classifies the outcome.
func (rc *RunCtx) replayNative(j Job, model map[string]uint64, keepDir string) replayOutcome {
	dir, err := os.MkdirTemp(rc.ReplayDir, "replay-")
	if err != nil {
		return replayOutcome{outcome: "error", output: err.Error()}
	}
	if keepDir != "" {
		dir = keepDir
		os.MkdirAll(dir, 0o755)
	}
	info := pkgDirs[j.Pkg]
	mb, _ := json.MarshalIndent(model, "", " ")
	modelPath := filepath.Join(dir, "model.json")
	os.WriteFile(modelPath, mb, 0o644)
	var args []string
	for _, a := range j.Args {
		args = append(args, fmt.Sprint(a))
	}
	extra := ""
	imports := ""
	if j.Pkg == "rules" {
		extra = "\tfor _, s := range verifRealised {\n\t\tt.Log(\"VERIF-RULE: \" + s)\n\t}\n"
	} else if _, ok := rc.OverlayFiles[filepath.Join(repoDir, "rules", "zz_verif_export.go")]; ok && j.Pkg != "filterutil" {
		imports = "\tvrules \"github.com/AdguardTeam/urlfilter/rules\"\n"
		extra = "\tfor _, s := range vrules.VerifRealised() {\n\t\tt.Log(\"VERIF-RULE: \" + s)\n\t}\n"
	}
	test := fmt.Sprintf(`package %s

import (
	"strings"
	"testing"
%s)

// Replay of a solver counterexample for harness %s (model: model.json next to this file).
func TestVerifReplay(t *testing.T) {
	out := verifReplayMain(func() { %s(%s) })
%s	t.Log("VERIF-OUTCOME: " + out)
	if strings.HasPrefix(out, "violation") {
		t.Fatal(out)
	}
}
`, info[2], imports, j.Name(), j.Func, strings.Join(args, ", "), extra)
	testPath := filepath.Join(dir, "replay_test.go")
	os.WriteFile(testPath, []byte(test), 0o644)
	repl := map[string]string{}
	for v, real := range rc.OverlayFiles {
		if keepDir != "" && strings.HasPrefix(real, rc.ReplayDir) {
			// copy generated lib next to the replay so that it survives the scratch dir
			b, _ := os.ReadFile(real)
			np := filepath.Join(dir, filepath.Base(real))
			os.WriteFile(np, b, 0o644)
			real = np
		}
		repl[v] = real
	}
	repl[filepath.Join(repoDir, info[0], "zz_verif_replay_test.go")] = testPath
	ob, _ := json.MarshalIndent(map[string]interface{}{"Replace": repl}, "", " ")
	ovPath := filepath.Join(dir, "overlay.json")
	os.WriteFile(ovPath, ob, 0o644)
	var known []string
	for k, v := range rc.Known {
		if v {
			known = append(known, k)
		}
	}
	sort.Strings(known)
	pkgArg := "./" + info[0]
	if info[0] == "" {
		pkgArg = "."
	}
	extraEnv := ""
	for name, content := range rc.ReplayFiles {
		fp := filepath.Join(dir, strings.ToLower(name)+".json")
		os.WriteFile(fp, content, 0o644)
		extraEnv += name + "=" + fp + " "
	}
	script := fmt.Sprintf("#!/bin/sh\n# replays the counterexample against the real code in /repo; exits non-zero if the violation reproduces\ncd %s && GOFLAGS=-mod=mod GOPROXY=off GOSUMDB=off GOTOOLCHAIN=local VERIF_KNOWN=%s %sVERIF_MODEL=%s go test -vet=off -count=1 -v -overlay %s -run '^TestVerifReplay$' %s\n",
		repoDir, strings.Join(known, ","), extraEnv, modelPath, ovPath, pkgArg)
	os.WriteFile(filepath.Join(dir, "run.sh"), []byte(script), 0o755)
	cmd := exec.Command("sh", filepath.Join(dir, "run.sh"))
	cmd.Env = goEnv()
	out, err := cmd.CombinedOutput()
	txt := string(out)
	ro := replayOutcome{output: txt, dir: dir}
	switch {
	case strings.Contains(txt, "VERIF-OUTCOME: violation"):
		ro.outcome = "violation"
	case strings.Contains(txt, "VERIF-OUTCOME: skip"):
		ro.outcome = "skip"
	case strings.Contains(txt, "VERIF-OUTCOME: ok"):
		ro.outcome = "ok"
	default:
		ro.outcome = "error"
	}
	_ = err
	return ro
}

func (rc *RunCtx) processEvents() {
	type cand struct {
		r  *JobResult
		ev sym.Event
	}
	var cands []cand
	seenLabel := map[string]int{}
	collisionNotes := map[string]int{}
	for _, r := range rc.Results {
		if r.Err != "" {
			rc.Infra = append(rc.Infra, fmt.Sprintf("job %s: engine error: %s", r.Job.Name(), r.Err))
		}
		if len(r.Solver.Errors) > 0 {
			rc.Infra = append(rc.Infra, fmt.Sprintf("job %s: solver error lines: %v", r.Job.Name(), r.Solver.Errors[0]))
		}
		vacuityHit := false
		for _, ev := range r.Events {
			switch ev.Kind {
			case "assert", "panic":
				if r.Job.Vacuity {
					if ev.Label == "vacuity" {
						vacuityHit = true
					}
					continue
				}
				k := ev.Kind + ":" + ev.Label
				if ev.Detail == "needs-collision" {
					// every model of this counterexample needs two different strings with equal hashes:
					// it cannot be replayed against the real hash; noted, not replayed
					if collisionNotes[k] == 0 {
						rc.Notes = append(rc.Notes, fmt.Sprintf("abstract counterexample that needs a hash collision (not replayable against the real hash; outside the claim): %s %q in job %s", ev.Kind, ev.Label, r.Job.Name()))
					}
					collisionNotes[k]++
					continue
				}
				if seenLabel[k] >= 2 {
					continue
				}
				seenLabel[k]++
				if len(cands) >= 40 {
					rc.Notes = append(rc.Notes, fmt.Sprintf("further counterexample candidate not replayed (replay budget): %s %q in job %s", ev.Kind, ev.Label, r.Job.Name()))
					continue
				}
				cands = append(cands, cand{r, ev})
			case "unknown", "unwind", "budget", "unsupported":
				rc.Infra = append(rc.Infra, fmt.Sprintf("job %s: %s: %s %s", r.Job.Name(), ev.Kind, ev.Label, ev.Pos))
			}
		}
		if r.Job.Vacuity && !vacuityHit && r.Err == "" {
			rc.Infra = append(rc.Infra, fmt.Sprintf("vacuity twin %s did not reach its assert(false): harness is vacuous", r.Job.Name()))
		}
	}
	outside := map[string]int{}
	for _, r := range rc.Results {
		for k, v := range r.Outside {
			outside[k] += v
		}
	}
	for k, v := range outside {
		rc.Notes = append(rc.Notes, fmt.Sprintf("%d path(s) cut as outside the claim: %s", v, k))
	}
	// replay candidates natively, in parallel
	type outc struct {
		c  cand
		ro replayOutcome
	}
	outs := make([]outc, len(cands))
	var wg sync.WaitGroup
	sem := make(chan bool, 8)
	for i, c := range cands {
		wg.Add(1)
		go func(i int, c cand) {
			defer wg.Done()
			sem <- true
			defer func() { <-sem }()
			if c.ev.Model == nil {
				outs[i] = outc{c, replayOutcome{outcome: "error", output: "no model"}}
				return
			}
			outs[i] = outc{c, rc.replayNative(c.r.Job, c.ev.Model, "")}
		}(i, c)
	}
	wg.Wait()
	for _, o := range outs {
		desc := fmt.Sprintf("%s %q at %s in job %s", o.c.ev.Kind, o.c.ev.Label, o.c.ev.Pos, o.c.r.Job.Name())
		switch o.ro.outcome {
		case "violation":
			// keep the replay
			keep := filepath.Join(outDir, "replays", rc.Spec.ID, digest(o.c.r.Job.Name(), o.c.ev.Label, fmt.Sprint(o.c.ev.Model)))
			ro2 := rc.replayNative(o.c.r.Job, o.c.ev.Model, keep)
			detail := extractRules(ro2.output)
			rc.Violations = append(rc.Violations, Violation{Label: o.c.ev.Label, Job: o.c.r.Job.Name(), Replay: filepath.Join(keep, "run.sh"), Detail: detail})
			rc.Samples = append(rc.Samples, map[string]interface{}{"kind": "violation", "what": desc, "model": o.c.ev.Model, "native": detail})
		case "skip":
			rc.Notes = append(rc.Notes, "spurious counterexample (not realisable through the public API / assumption violated natively): "+desc+" :: "+lastLines(o.ro.output, 3))
		case "ok":
			if rc.Spec.ContractStubs != "" {
				rc.Notes = append(rc.Notes, "counterexample under a contract stub not reproduced natively ("+rc.Spec.ContractStubs+"): "+desc)
			} else if rc.Spec.AbstractHash && !o.c.r.Job.RealHash {
				rc.Notes = append(rc.Notes, "abstract counterexample not reproduced natively (it needs a hash collision that the real hash function may not have; outside the claim): "+desc+" :: "+extractRules(o.ro.output)+fmt.Sprint(o.c.ev.Model))
			} else {
				rc.Infra = append(rc.Infra, "counterexample did not reproduce natively (encoder or stub mismatch): "+desc)
			}
		default:
			rc.Infra = append(rc.Infra, "replay failed to run: "+desc+" :: "+lastLines(o.ro.output, 6))
		}
	}
	// reachability witnesses
	reach := map[string]int{}
	for _, r := range rc.Results {
		for k, v := range r.Reach {
			reach[k] += v
		}
	}
	for _, m := range rc.Spec.MustReach {
		if reach[m] == 0 {
			rc.Infra = append(rc.Infra, "reachability witness never hit: "+m)
		}
	}
}

func extractRules(out string) string {
	var rs []string
	for _, l := range strings.Split(out, "\n") {
		if i := strings.Index(l, "VERIF-RULE: "); i >= 0 {
			rs = append(rs, l[i+len("VERIF-RULE: "):])
		}
		if i := strings.Index(l, "VERIF-OUTCOME: "); i >= 0 {
			rs = append(rs, l[i:])
		}
	}
	return strings.Join(rs, " ; ")
}

func lastLines(s string, n int) string {
	ls := strings.Split(strings.TrimSpace(s), "\n")
	if len(ls) > n {
		ls = ls[len(ls)-n:]
	}
	return strings.Join(ls, " | ")
}

func (rc *RunCtx) verdict() int {
	for _, l := range rc.KnownLines {
		fmt.Println(l)
	}
	for _, n := range rc.Notes {
		fmt.Println("NOTE:", n)
	}
	if len(rc.Violations) > 0 {
		for _, v := range rc.Violations {
			fmt.Printf("VIOLATION property=%s replay=%s\n", rc.Spec.ID, v.Replay)
			fmt.Printf("  assertion: %s (job %s) %s\n", v.Label, v.Job, v.Detail)
		}
		return 1
	}
	if len(rc.Infra) > 0 {
		for _, i := range rc.Infra {
			fmt.Println("INFRA:", i)
		}
		return 2
	}
	fmt.Printf("[%s] held on everything explored (%s tier, %.1fs)\n", rc.Spec.ID, rc.Tier, time.Since(rc.t0).Seconds())
	return 0
}

// ---------------------------------------------------------------- known findings

type KnownEntry struct {
	Property string `json:"property"`
	ID       string `json:"id"`
	Status   string `json:"status"` // "open" or "fixed"
	Text     string `json:"text"`
	Witness  string `json:"witness"` // file under /verif/known (a Go test placed in WitnessPkg by overlay)
	WitnessPkg string `json:"witness_pkg"`
	Commit   string `json:"commit,omitempty"`
}

func (rc *RunCtx) loadKnown() {
	b, err := os.ReadFile(filepath.Join(verifDir, "known_findings.json"))
	if err != nil {
		return
	}
	var ks []KnownEntry
	if err := json.Unmarshal(b, &ks); err != nil {
		rc.Infra = append(rc.Infra, "known_findings.json: "+err.Error())
		return
	}
	for _, k := range ks {
		if k.Property != rc.Spec.ID || k.Status != "open" {
			continue
		}
		// the witness test passes when the property holds and fails while the defect is present
		info := pkgDirs[k.WitnessPkg]
		ov := map[string]interface{}{"Replace": map[string]string{
			filepath.Join(repoDir, info[0], "zz_verif_known_"+strings.ToLower(k.ID)+"_test.go"): filepath.Join(verifDir, "known", k.Witness),
		}}
		ob, _ := json.Marshal(ov)
		ovPath := filepath.Join(rc.ReplayDir, "known_"+k.ID+".json")
		os.WriteFile(ovPath, ob, 0o644)
		pkgArg := "./" + info[0]
		if info[0] == "" {
			pkgArg = "."
		}
		cmd := exec.Command("go", "test", "-vet=off", "-count=1", "-overlay", ovPath, "-run", "^TestVerifKnown"+k.ID+"$", pkgArg)
		cmd.Dir = repoDir
		cmd.Env = goEnv()
		out, err := cmd.CombinedOutput()
		txt := string(out)
		switch {
		case err == nil && strings.Contains(txt, "ok"):
			// defect no longer present: nothing is printed and nothing is excluded
			rc.Notes = append(rc.Notes, fmt.Sprintf("known finding %s no longer reproduces; its region is not excluded", k.ID))
		case strings.Contains(txt, "--- FAIL"):
			rc.Known[k.ID] = true
			rc.KnownLines = append(rc.KnownLines, fmt.Sprintf("KNOWN-FINDING: property=%s %s: %s", k.Property, k.ID, k.Text))
		default:
			rc.Infra = append(rc.Infra, fmt.Sprintf("known finding %s: witness did not run: %s", k.ID, lastLines(txt, 5)))
		}
	}
}

// ---------------------------------------------------------------- evidence

func fileHashes(funcs []string, prog *ssa.Program) map[string]string {
	// hash the repository source files that define encoded urlfilter functions
	files := map[string]bool{}
	for _, p := range prog.AllPackages() {
		if !strings.HasPrefix(p.Pkg.Path(), modPath) {
			continue
		}
		for _, m := range p.Members {
			if f, ok := m.(*ssa.Function); ok && f.Pos().IsValid() {
				files[prog.Fset.Position(f.Pos()).Filename] = true
			}
		}
	}
	out := map[string]string{}
	for f := range files {
		if strings.Contains(f, "zz_verif") {
			continue
		}
		b, err := os.ReadFile(f)
		if err != nil {
			continue
		}
		s := sha256.Sum256(b)
		out[strings.TrimPrefix(f, repoDir+"/")] = hex.EncodeToString(s[:8])
	}
	return out
}

func (rc *RunCtx) writeEvidence(code int) { rc.writeEvidenceFull(code, 0) }

func (rc *RunCtx) writeEvidenceFull(code int, nValidated int) {
	var tot sym.Stats
	var sol sym.SolverStats
	encoded := map[string]bool{}
	stubs := map[string]int{}
	asserts := map[string]*sym.AssertStat{}
	reach := map[string]int{}
	var jobs []map[string]interface{}
	incomplete := 0
	crossChecked, crossUnknown := 0, 0
	for _, r := range rc.Results {
		tot.Steps += r.Stats.Steps
		tot.Forks += r.Stats.Forks
		tot.Merges += r.Stats.Merges
		tot.MergeFails += r.Stats.MergeFails
		tot.Paths += r.Stats.Paths
		tot.AssumePruned += r.Stats.AssumePruned
		tot.AssertQueries += r.Stats.AssertQueries
		tot.AssertUnsat += r.Stats.AssertUnsat
		tot.AssertSat += r.Stats.AssertSat
		tot.AssertUnknown += r.Stats.AssertUnknown
		sol.Queries += r.Solver.Queries
		sol.Sat += r.Solver.Sat
		sol.Unsat += r.Solver.Unsat
		sol.Unknown += r.Solver.Unknown
		sol.Seconds += r.Solver.Seconds
		for _, f := range r.Encoded {
			encoded[f] = true
		}
		for k, v := range r.Stubs {
			stubs[k] += v
		}
		for k, v := range r.Reach {
			reach[k] += v
		}
		for k, v := range r.Asserts {
			a := asserts[k]
			if a == nil {
				a = &sym.AssertStat{}
				asserts[k] = a
			}
			a.Checked += v.Checked
			a.Failed += v.Failed
			a.Unknown += v.Unknown
		}
		if r.Err != "" {
			incomplete++
		}
		crossChecked += r.CrossChecked
		crossUnknown += r.CrossUnknown
		jobs = append(jobs, map[string]interface{}{"job": r.Job.Name(), "paths": r.Stats.Paths, "forks": r.Stats.Forks, "merges": r.Stats.Merges,
			"solver_queries": r.Solver.Queries, "solver_s": round3(r.Solver.Seconds), "wall_s": round3(r.Seconds), "terms": r.Terms,
			"assert_queries": r.Stats.AssertQueries, "error": r.Err})
	}
	var enc, encRepo []string
	for f := range encoded {
		enc = append(enc, f)
		if strings.Contains(f, modPath) && !strings.Contains(f, ".verif") && !strings.Contains(f, ".vn") {
			encRepo = append(encRepo, strings.ReplaceAll(f, modPath, "urlfilter"))
		}
	}
	sort.Strings(enc)
	sort.Strings(encRepo)
	samples := rc.Samples
	if len(jobs) > 0 {
		n := len(jobs)
		if n > 12 {
			n = 12
		}
		samples = append(samples, map[string]interface{}{"kind": "jobs", "first": jobs[:n]})
	}
	var assertList []map[string]interface{}
	var labels []string
	for k := range asserts {
		labels = append(labels, k)
	}
	sort.Strings(labels)
	for _, k := range labels {
		a := asserts[k]
		assertList = append(assertList, map[string]interface{}{"assertion": k, "queries": a.Checked, "violated": a.Failed, "unknown": a.Unknown})
	}
	if len(samples) == 0 {
		samples = append(samples, "no jobs ran")
	}
	var hashes map[string]string
	if rc.Loaded != nil {
		hashes = fileHashes(enc, rc.Loaded.Prog)
	}
	cov := map[string]interface{}{
		"states":                        max1(tot.Paths + tot.Merges),
		"transitions":                   max1(tot.Steps),
		"traces_validated_against_impl": nValidated,
		"samples":                       samples,
		"evaluations":                   max1(tot.AssertQueries),
		"distinct_nontrivial":           tot.Paths + tot.Merges,
		"rule":                          rc.Spec.Rule,
		"explanation":                   "bounded symbolic execution of the listed functions from /repo's SSA (rebuilt this run); every assertion is decided by the SMT solver for all values of the symbolic inputs inside the stated bound",
		"exhaustive":                    false,
		"bound":                         rc.Spec.Bounds[rc.Tier],
		"outside_the_claim":             rc.Spec.Outside,
		"functions_encoded":             encRepo,
		"functions_encoded_total":       len(enc),
		"source_sha256_prefix":          hashes,
		"jobs":                          len(rc.Results),
		"jobs_incomplete":               incomplete,
		"paths":                         tot.Paths,
		"forks":                         tot.Forks,
		"state_merges":                  tot.Merges,
		"assertions":                    assertList,
		"assert_queries":                map[string]int{"total": tot.AssertQueries, "unsat_holds": tot.AssertUnsat, "sat_violated": tot.AssertSat, "unknown": tot.AssertUnknown},
		"solver":                        map[string]interface{}{"kind": solverKind(), "queries": sol.Queries, "sat": sol.Sat, "unsat": sol.Unsat, "unknown": sol.Unknown, "seconds": round3(sol.Seconds)},
		"cross_solver":                  map[string]interface{}{"solver": "cvc5 1.0 (standalone, identical SMT-LIB text)", "assertion_queries_rechecked": crossChecked, "agreed": crossChecked - crossUnknown, "second_solver_unknown": crossUnknown, "disagreements": countContaining(rc.Infra, "solver disagreement")},
		"stubs_and_intrinsics_used":     stubs,
		"reachability_witnesses":        reach,
		"known_findings_active":         keysOf(rc.Known),
		"notes":                         rc.Notes,
		"infrastructure_errors":         rc.Infra,
		"exit_code":                     code,
	}
	ev := map[string]interface{}{
		"property_id": rc.Spec.ID,
		"tier":        rc.Tier,
		"seed":        rc.Seed,
		"level":       "model_checking",
		"coverage":    cov,
		"assumptions": rc.Spec.Assumptions,
		"wall_s":      round3(time.Since(rc.t0).Seconds()),
		"violations":  len(rc.Violations),
	}
	b, _ := json.MarshalIndent(ev, "", " ")
	os.MkdirAll(filepath.Join(outDir, "evidence"), 0o755)
	os.WriteFile(filepath.Join(outDir, "evidence", rc.Spec.ID+".json"), b, 0o644)
}

func solverKind() string {
	if k := os.Getenv("GOSYM_SOLVER"); k != "" {
		return k
	}
	return "z3 4.8.12 (z3 -in, incremental)"
}

func keysOf(m map[string]bool) []string {
	out := []string{}
	for k, v := range m {
		if v {
			out = append(out, k)
		}
	}
	sort.Strings(out)
	return out
}

func round3(f float64) float64 { return float64(int(f*1000+0.5)) / 1000 }
func max1(n int) int {
	if n < 1 {
		return 1
	}
	return n
}

func countContaining(xs []string, sub string) int {
	n := 0
	for _, x := range xs {
		if strings.Contains(x, sub) {
			n++
		}
	}
	return n
}
