module verif/engine

go 1.23.2

toolchain go1.23.5

require (
	github.com/AdguardTeam/urlfilter v0.0.0
	github.com/miekg/dns v1.1.61
	golang.org/x/net v0.34.0
	golang.org/x/tools v0.29.0
)

require (
	github.com/AdguardTeam/golibs v0.29.0 // indirect
	golang.org/x/mod v0.22.0 // indirect
	golang.org/x/sync v0.10.0 // indirect
	golang.org/x/sys v0.29.0 // indirect
)

replace github.com/AdguardTeam/urlfilter => /repo
