package main

import (
	"fmt"
	"math/rand"
	"net/url"

	"verif/engine/sym"

	"github.com/AdguardTeam/urlfilter/filterutil"
)

func init() {
	register(&Spec{
		ID:       "C17",
		Pkgs:     []string{"rules"},
		InitPkgs: []string{"filterutil", "rules"},
		Jobs: func(tier string) []Job {
			jobs := []Job{{Pkg: "rules", Func: "verifC17Vacuity", Vacuity: true}, {Pkg: "rules", Func: "verifC17Cap"}, {Pkg: "rules", Func: "verifC17SourceCap", Args: []int64{0}}, {Pkg: "rules", Func: "verifC17SourceCap", Args: []int64{1}}}
			maxHost, maxE := 8, 12
			if tier == "thorough" {
				maxHost, maxE = 10, 15
			}
			for hl := 0; hl <= maxHost; hl++ {
				for tail := 0; tail < 4; tail++ {
					if hl == 0 && tail == 0 {
						continue
					}
					for shape := 0; shape <= 5; shape++ {
						jobs = append(jobs, Job{Pkg: "rules", Func: "verifC17Extract", Args: []int64{int64(hl), int64(tail), int64(shape)}})
					}
				}
			}
			for hl := 0; hl <= maxE; hl++ {
				for tail := 0; tail < 4; tail++ {
					jobs = append(jobs, Job{Pkg: "rules", Func: "verifC17ETLD", Args: []int64{int64(hl), int64(tail)}})
					if hl+tail > 0 && hl <= maxHost+1 {
						jobs = append(jobs, Job{Pkg: "rules", Func: "verifC17Hostname", Args: []int64{int64(hl), int64(tail)}})
					}
				}
			}
			rl := 5
			if tier == "thorough" {
				rl = 6
			}
			for hl := 1; hl <= rl; hl++ {
				for tail := 0; tail < 3; tail++ {
					for _, shape := range []int{0, 1, 3} {
						jobs = append(jobs, Job{Pkg: "rules", Func: "verifC17Request", Args: []int64{int64(hl), int64(tail), int64(shape), -1, 0}})
						for sl := 1; sl <= rl; sl++ {
							for st := 0; st < 3; st++ {
								if shape == 0 {
									jobs = append(jobs, Job{Pkg: "rules", Func: "verifC17Request", Args: []int64{int64(hl), int64(tail), int64(shape), int64(sl), int64(st)}})
								}
							}
						}
					}
				}
			}
			return jobs
		},
		Setup:     setupNetip,
		MustReach: []string{"c17.extract", "c17.etld.some", "c17.etld.none", "c17.request", "c17.thirdparty", "c17.hostname", "c17.cap", "c17.sourcecap"},
		Bounds: map[string]string{
			"quick":    "ExtractHostname: scheme 1..3 symbolic bytes, host 0..8 symbolic bytes over {z,q,.,-,1} plus a tail from {'',.com,.co.uk,.org}, six URL shapes (port, path, query, fragment); eTLD+1: host 0..12 symbolic bytes over {z,q,.} plus tail; NewRequest: host and source host 1..5 bytes plus tail; hostname requests incl. an upper-case letter; 4 KiB cap of the URL and of the source URL with 8 symbolic bytes around the boundary",
			"thorough": "hosts up to 10 (ExtractHostname), 15 (eTLD+1) and 6 (NewRequest) symbolic bytes",
		},
		Outside:     []string{"the Public Suffix List data: replaced by a compact model (letters z,q,Z form no rule; tails .com .co.uk .org .uk) that is validated exhaustively against the real library on every run", "wildcard and exception PSL rules", "userinfo, IPv6 literals, a fragment directly after the host", "net/url itself: the claim 'the standard parser returns the host' is validated natively on sampled URLs of the grammar"},
		Assumptions: []string{"publicsuffix.PublicSuffix == PSL model (validated); publicsuffix.EffectiveTLDPlusOne is executed from its real body on top of the same model as the reference"},
		Rule:        "string lengths and tails are job parameters; bytes symbolic; one state per feasible path",
		Validate: func(l *sym.Loaded, tier string, seed int64) (int, []string) {
			m := *sym.DefaultPSL
			m.Free = "zqZ"
			n, mm := sym.ValidatePSL(&m, 7)
			// grammar vs net/url on sampled URLs
			rnd := rand.New(rand.NewSource(seed))
			pick := func(alpha string, k int) string {
				b := make([]byte, k)
				for i := range b {
					b[i] = alpha[rnd.Intn(len(alpha))]
				}
				return string(b)
			}
			for i := 0; i < 20000; i++ {
				host := pick("zq-1", 1+rnd.Intn(3))
				if rnd.Intn(2) == 0 {
					host += "." + pick("zq-1", 1+rnd.Intn(3))
				}
				host += []string{"", ".com", ".co.uk", ".org"}[rnd.Intn(4)]
				scheme := "a" + pick("ah+.", rnd.Intn(3))
				u := scheme + "://" + host
				switch rnd.Intn(6) {
				case 1:
					u += "/" + pick("a/?:#@", 2)
				case 2:
					u += "?" + pick("a/?:#@", 2)
				case 3:
					u += ":8/" + pick("a/?:#@", 1)
				case 4:
					u += "/" + pick("a/?:", 1) + "#" + pick("a/?:#", 1)
				case 5:
					u += ":80"
				}
				pu, err := url.Parse(u)
				n++
				if err != nil {
					continue // outside "well-formed"
				}
				if pu.Hostname() != host {
					mm = append(mm, fmt.Sprintf("net/url host of %q is %q, grammar says %q", u, pu.Hostname(), host))
				}
				if got := filterutil.ExtractHostname(u); got != host {
					mm = append(mm, fmt.Sprintf("native ExtractHostname(%q) = %q, want %q", u, got, host))
				}
				if len(mm) > 5 {
					break
				}
			}
			return n, mm
		},
	})
}
