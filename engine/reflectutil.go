package main

import (
	"reflect"
)

// reflectString reads an unexported string field of a struct behind a pointer.
func reflectString(ptr interface{}, field string) string {
	return reflect.ValueOf(ptr).Elem().FieldByName(field).String()
}
