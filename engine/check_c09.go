package main

func init() {
	register(&Spec{
		ID:       "C09",
		Pkgs:     []string{"root", "rules", "filterutil", "lookup", "filterlist"},
		InitPkgs: []string{"filterutil", "rules", "filterlist", "lookup", "root"},
		Jobs: func(tier string) []Job {
			maxK := 3 // with all six payload kinds; thorough adds k=4 over four kinds and k=5 over three
			jobs := []Job{{Pkg: "root", Func: "verifC09Vacuity", Vacuity: true}}
			for k := 0; k <= maxK; k++ {
				jobs = append(jobs, Job{Pkg: "root", Func: "verifC09", Args: []int64{int64(k), 6}})
			}
			// all eleven payload kinds (adds AAAA, SRV, HTTPS/SVCB, PTR, NS/SOA without a value) on pairs (quick) and triples (thorough)
			jobs = append(jobs, Job{Pkg: "root", Func: "verifC09", Args: []int64{2, 11}})
			if tier == "thorough" {
				jobs = append(jobs, Job{Pkg: "root", Func: "verifC09", Args: []int64{3, 11}})
			}
			if tier == "thorough" {
				jobs = append(jobs, Job{Pkg: "root", Func: "verifC09", Args: []int64{4, 4}})
			}
			return jobs
		},
		Setup:     setupNetip,
		MustReach: []string{"c09.mixed", "c09.two-exceptions"},
		Bounds: map[string]string{
			"quick":    "sequences of 0..3 rewrite rules; each rule: exception flag and $important symbolic, payload one of {empty, CNAME, rcode-only, A, TXT, MX} with symbolic contents; pairs over all eleven kinds (plus AAAA, SRV, HTTPS/SVCB with a parameter map, PTR, and NS/SOA whose value is dropped by the parser)",
			"thorough": "as quick, plus sequences of 4 rules over {empty, CNAME, rcode-only, A} and triples over all eleven kinds",
		},
		Outside:     []string{"more than 4 rewrite rules on one hostname", "$badfilter on rewrite rules (C08)"},
		Assumptions: []string{"rules are built field by field and re-parsed from '||x^$dnsrewrite=...' text during native replay"},
		Rule:        "payload kinds fork (concrete dynamic types); flags and contents are symbolic; one state per feasible path",
	})
}
