package main

import (
	"bufio"
	"encoding/json"
	"math/rand"
	"os"
	"regexp"
	"strings"

	"verif/engine/sym"

	"github.com/AdguardTeam/urlfilter/rules"
)

// regexAtoms are the building blocks of the regular-expression grammar of C05.
var regexAtoms = []string{"ab", "c", "x1", `\d`, `\w`, `\s`, `\b`, `\.`, `\/`, `\x41`, "[ab]", "[^a]", "(ab|cd)", "(?:xy)", "(a)", "|", "*", "+", "{1,2}", "{0,1}", "?", "^", "$", ".", "a{2}"}

func addRegexRule(nr *nativeRules, seen map[string]bool, text string) {
	if seen[text] {
		return
	}
	seen[text] = true
	r, err := rules.NewNetworkRule(text, 1)
	if err != nil || !r.IsRegexRule() {
		return
	}
	pat := safeCompiledPattern(r)
	if pat == "" {
		return
	}
	if _, err := regexp.Compile(pat); err != nil {
		return // invalid expressions never match
	}
	nr.texts = append(nr.texts, text)
	nr.rules = append(nr.rules, r)
}

// enumerateRegexRules: every expression of 1..maxAtoms atoms, plus `sample` seeded expressions of maxAtoms+1..maxAtoms+2 atoms.
func enumerateRegexRulesSampled(maxAtoms, sample int, seed int64) *nativeRules {
	nr := enumerateRegexRules(maxAtoms)
	seen := map[string]bool{}
	for _, t := range nr.texts {
		seen[t] = true
	}
	rnd := rand.New(rand.NewSource(seed))
	for i := 0; i < sample; i++ {
		n := maxAtoms + 1 + rnd.Intn(2)
		p := ""
		for j := 0; j < n; j++ {
			p += regexAtoms[rnd.Intn(len(regexAtoms))]
		}
		addRegexRule(nr, seen, "/"+p+"/")
	}
	return nr
}

func enumerateRegexRules(maxAtoms int) *nativeRules {
	nr := &nativeRules{}
	seen := map[string]bool{}
	var rec func(prefix string, n int)
	rec = func(prefix string, n int) {
		if n > 0 {
			addRegexRule(nr, seen, "/"+prefix+"/")
		}
		if n == maxAtoms {
			return
		}
		for _, a := range regexAtoms {
			rec(prefix+a, n+1)
		}
	}
	rec("", 0)
	return nr
}

// bundledRegexRules collects every regular-expression rule of the bundled real-world lists.
func bundledRegexRules(limit int) *nativeRules {
	nr := &nativeRules{}
	seen := map[string]bool{}
	for _, f := range []string{repoDir + "/testdata/easylist.txt", repoDir + "/testdata/adguard_sdn_filter.txt"} {
		fh, err := os.Open(f)
		if err != nil {
			continue
		}
		sc := bufio.NewScanner(fh)
		sc.Buffer(make([]byte, 1<<20), 1<<20)
		for sc.Scan() {
			line := strings.TrimSpace(sc.Text())
			if !(strings.HasPrefix(line, "/") || strings.HasPrefix(line, "@@/")) {
				continue
			}
			if limit > 0 && len(nr.texts) >= limit {
				break
			}
			addRegexRule(nr, seen, line)
		}
		fh.Close()
	}
	return nr
}

func init() {
	register(&Spec{
		ID:       "C05",
		Pkgs:     []string{"rules"},
		InitPkgs: []string{"filterutil", "rules"},
		Prepare: func(rc *RunCtx) error {
			maxTok, maxAtoms, nb, sample, rsample := 2, 2, 60, 100, 60
			if rc.Tier == "thorough" {
				nb, sample, rsample = 0, 500, 400
			}
			mask := enumerateMaskRules(maxTok, sample, rc.Seed)
			rx := enumerateRegexRulesSampled(maxAtoms, rsample, rc.Seed)
			// nested groups: an optional / repeated outer group around a group, followed by a literal tail
			seenN := map[string]bool{}
			for _, t := range rx.texts {
				seenN[t] = true
			}
			for _, q := range []string{"", "*", "+", "?", "{0,2}"} {
				for _, inner := range []string{"(a|b)cde", "(ab)?cde", "a(bc)*de", "(a(bc))de", "(?:ab|c)def", "((ab)|cd)ef"} {
					for _, tail := range []string{"fg", `\.js`, ""} {
						addRegexRule(rx, seenN, "/("+inner+")"+q+tail+"/")
					}
				}
			}
			// escape parity: an escaped backslash or an escaped operator directly in front of an
			// operator (`\\|` is an alternation after a literal backslash, `\|` a literal pipe)
			for _, lit1 := range []string{"abc", "a"} {
				for _, esc := range []string{`\\`, `\|`, `\\\|`, `\\\\`, `\*`, `\(`} {
					for _, op := range []string{"|", "*", "+", "?", "", "{2}"} {
						for _, lit2 := range []string{"de", "defgh"} {
							addRegexRule(rx, seenN, "/"+lit1+esc+op+lit2+"/")
						}
					}
				}
			}
			bd := bundledRegexRules(nb)
			all := &nativeRules{}
			all.texts = append(append(append(all.texts, mask.texts...), rx.texts...), bd.texts...)
			all.rules = append(append(append(all.rules, mask.rules...), rx.rules...), bd.rules...)
			rc.Natives["rules"] = all
			rc.Natives["nmask"] = len(mask.texts)
			rc.Natives["nregex"] = len(rx.texts)
			rc.Natives["nbundled"] = len(bd.texts)
			b, _ := json.Marshal(all.texts)
			rc.ReplayFiles["VERIF_RULES"] = b
			rc.Notes = append(rc.Notes, "rules checked: "+itoa(len(mask.texts))+" mask patterns, "+itoa(len(rx.texts))+" grammar regular expressions, "+itoa(len(bd.texts))+" regular-expression rules of the bundled lists")
			return nil
		},
		Jobs: func(tier string) []Job {
			jobs := []Job{{Pkg: "rules", Func: "verifMaskVacuity", Vacuity: true}}
			maxL, hostL := 12, 8
			if tier == "thorough" {
				maxL, hostL = 16, 10
			}
			nm := curRun.Natives["nmask"].(int)
			nx := curRun.Natives["nregex"].(int)
			nb := curRun.Natives["nbundled"].(int)
			for _, j := range batchJobs("verifMaskRules", nm, 8, int64(maxL), 5) {
				jobs = append(jobs, j)
			}
			for from := nm; from < nm+nx+nb; from += 6 {
				c := 6
				if from+c > nm+nx+nb {
					c = nm + nx + nb - from
				}
				jobs = append(jobs, Job{Pkg: "rules", Func: "verifRegexRules", Args: []int64{int64(from), int64(c), int64(maxL)}})
				jobs = append(jobs, Job{Pkg: "rules", Func: "verifRegexRulesHost", Args: []int64{int64(from), int64(c), int64(hostL)}})
			}
			return jobs
		},
		Setup: func(e *sym.Engine, st *sym.State, l *sym.Loaded) {
			setupNetip(e, st, l)
			e.Ctx["native:rule"] = nativeRuleProvider(curRun.Natives["rules"].(*nativeRules))
		},
		MustReach: []string{"c03b.rule", "c05.rule", "c05.accepts"},
		Bounds: map[string]string{
			"quick":    "mask patterns of 1..2 tokens (as C03) + 100 seeded longer ones; regular expressions of 1..2 atoms over 25 atoms plus 60 seeded ones of 3..4 atoms and up to 90 nested-group shapes ((inner group) outer quantifier, literal tail) and up to 144 escape-parity shapes (literal, escaped backslash / escaped operator, operator, literal) (literals, \\d \\w \\s \\b \\. \\/ \\xHH, classes, groups with alternation, | * + {m,n} ? ^ $ .); the first 60 regular-expression rules of the bundled lists; for each rule ALL URLs of 0..12 printable-ASCII bytes and ALL hostnames of 1..8 bytes",
			"thorough": "mask 1..2 tokens plus 500 seeded longer ones, regular expressions 1..2 atoms plus 400 seeded ones of 3..4 atoms and the nested-group and escape-parity shapes, every regular-expression rule of the bundled lists; URLs 0..16 bytes, hostnames 1..10 bytes (the earlier bound, URLs to 20 bytes with 3500 seeded rules, did not finish in 50 minutes and is not claimed)",
		},
		Outside:     []string{"URLs longer than the bound (a rule whose shortest match is longer is vacuously covered)", "non-ASCII bytes", "look-arounds (rejected by Go's regexp: the rule is invalid and never matches)"},
		Assumptions: []string{"regexp encoding == (*Regexp).MatchString on ASCII (validated on concrete strings each run)"},
		Rule:        "outer enumeration of concrete rules (parsed natively); per (rule, length) one solver query over all URL bytes: accepts(u) and not contains(lower(u), shortcut)",
		Validate: func(l *sym.Loaded, tier string, seed int64) (int, []string) {
			return validateRegexEncoding(l, curRun.Natives["rules"].(*nativeRules), seed, 4)
		},
	})
}

func itoa(n int) string { return fmtInt(n) }

func fmtInt(n int) string {
	if n == 0 {
		return "0"
	}
	s := ""
	for n > 0 {
		s = string(rune('0'+n%10)) + s
		n /= 10
	}
	return s
}
