// gosym: solver-based checks of AdguardTeam/urlfilter properties (see /verif/DESIGN.md).
package main

import (
	"fmt"
	"os"
	"sort"
	"strconv"
)

var specs = map[string]*Spec{}

func register(s *Spec) { specs[s.ID] = s }

func main() {
	if len(os.Args) == 4 && os.Args[1] == "pdom" {
		debugPdom(os.Args[2], os.Args[3])
		return
	}
	if len(os.Args) == 2 && os.Args[1] == "bounds" {
		// the registered bounds of every check, as markdown (pasted into DESIGN.md by gen_bounds.py)
		var ids []string
		for id := range specs {
			ids = append(ids, id)
		}
		sort.Strings(ids)
		for _, id := range ids {
			sp := specs[id]
			fmt.Printf("**%s**\n\n", id)
			fmt.Printf("* quick: %s\n", sp.Bounds["quick"])
			fmt.Printf("* thorough: %s\n", sp.Bounds["thorough"])
			for _, o := range sp.Outside {
				fmt.Printf("* outside the claim: %s\n", o)
			}
			for _, a := range sp.Assumptions {
				fmt.Printf("* assumes: %s\n", a)
			}
			if sp.ContractStubs != "" {
				fmt.Printf("* contract stubs: %s\n", sp.ContractStubs)
			}
			fmt.Println()
		}
		return
	}
	if len(os.Args) < 3 || os.Args[1] != "check" {
		fmt.Println("usage: gosym check <property-id> [quick|thorough]")
		var ids []string
		for id := range specs {
			ids = append(ids, id)
		}
		sort.Strings(ids)
		fmt.Println("properties:", ids)
		os.Exit(2)
	}
	id := os.Args[2]
	tier := "quick"
	if len(os.Args) > 3 {
		tier = os.Args[3]
	}
	if t := os.Getenv("VERIF_TIER"); t == "quick" || t == "thorough" {
		tier = t
	}
	seed := int64(1)
	if s := os.Getenv("VERIF_SEED"); s != "" {
		if v, err := strconv.ParseInt(s, 10, 64); err == nil {
			seed = v
		}
	}
	spec, ok := specs[id]
	if !ok {
		fmt.Println("unknown property", id)
		os.Exit(2)
	}
	os.Exit(runCheck(spec, tier, seed))
}
