package main

func init() {
	register(&Spec{
		ID:       "C08",
		Pkgs:     []string{"rules"},
		InitPkgs: []string{"filterutil", "rules"},
		Jobs: func(tier string) []Job {
			maxK := 3
			maxList := 2
			if tier == "thorough" {
				maxK = 4
				maxList = 2
			}
			jobs := []Job{{Pkg: "rules", Func: "verifC08Lemma", Args: []int64{int64(maxList)}}, {Pkg: "rules", Func: "verifC08Vacuity", Vacuity: true}}
			for k := 1; k <= maxK; k++ {
				for m := 0; m < 1<<k; m++ {
					jobs = append(jobs, Job{Pkg: "rules", Func: "verifC08Filter", Args: []int64{int64(k), int64(m)}})
				}
			}
			return jobs
		},
		MustReach: []string{"c08.twin", "c08.nottwin", "c08.filter", "c08.filter.twin"},
		Bounds: map[string]string{
			"quick":    "twin lemma: two rules, all compared fields symbolic (option words and masks full width, value lists of length 0..2 with symbolic entries -- $domain/$denyallow lists in any order with duplicates as the parser stores them, $ctag/$client lists sorted with duplicates --, optional $dnsrewrite); filter: k<=3 rules, every subset carrying $badfilter",
			"thorough": "twin lemma as in quick; filter: k<=4 rules",
		},
		Outside:     []string{"verdict invariance through NewMatchingResult/GetDNSBasicRule is checked in C06's harness", "more than 4 rules on one request", "client subnets (only client names are symbolic)"},
		Assumptions: []string{"InvRule; list entries are one symbolic letter plus a fixed suffix; counterexamples re-parsed from text"},
		Rule:        "one state per feasible path; the $badfilter subset is enumerated as jobs, everything else is symbolic",
	})
}
