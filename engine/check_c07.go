package main

func init() {
	register(&Spec{
		ID:   "C07",
		Pkgs: []string{"rules"}, InitPkgs: []string{"filterutil", "rules"},
		Jobs: func(tier string) []Job {
			return []Job{
				{Pkg: "rules", Func: "verifC07Pair"},
				{Pkg: "rules", Func: "verifC07Triple"},
				{Pkg: "rules", Func: "verifC07AddModifier"},
				{Pkg: "rules", Func: "verifC07AddList"},
				{Pkg: "rules", Func: "verifC07Vacuity", Vacuity: true},
			}
		},
		MustReach: []string{"c07.higher", "c07.specific", "c07.chain", "c07.ties", "c07.addmod", "c07.addlist"},
		Bounds: map[string]string{
			"quick":    "three rules; 64-bit option words, 32-bit type masks and exception flags fully symbolic under InvRule; every value list of symbolic length 0..1 (the comparison only reads emptiness); client sets nil or non-empty",
			"thorough": "same as quick (full width already)",
		},
		Outside:     []string{"the selected rule being maximal among candidates is checked in C06's harness"},
		Assumptions: []string{"InvRule (DESIGN §2.10); counterexamples are textualised and re-parsed by rules.NewNetworkRule during native replay"},
		Rule:        "one state per feasible path of the harness (nil/non-nil client sets fork); assertion queries are (path, assertion) pairs",
	})
}
