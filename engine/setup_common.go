package main

import (
	"bufio"
	"io"
	"io/fs"
	"os"
	"net/netip"
	"reflect"
	"strconv"

	"verif/engine/sym"

	"github.com/miekg/dns"
)

// setupNetip registers the package-level variables of non-interpreted packages
// that kernels read (imported structurally from the live native process).
func setupNetip(e *sym.Engine, st *sym.State, l *sym.Loaded) {
	v4 := netip.IPv4Unspecified()
	v6 := netip.IPv6Unspecified()
	var zero netip.Addr
	e.NativeGlob["net/netip.z4"] = func() reflect.Value { return reflect.ValueOf(&v4).Elem().FieldByName("z") }
	e.NativeGlob["net/netip.z6noz"] = func() reflect.Value { return reflect.ValueOf(&v6).Elem().FieldByName("z") }
	e.NativeGlob["net/netip.z0"] = func() reflect.Value { return reflect.ValueOf(&zero).Elem().FieldByName("z") }
	e.NativeGlob["github.com/miekg/dns.StringToType"] = &dns.StringToType
	e.NativeGlob["github.com/miekg/dns.StringToRcode"] = &dns.StringToRcode
	e.NativeGlob["github.com/miekg/dns.TypeToString"] = &dns.TypeToString
	e.NativeGlob["strconv.ErrSyntax"] = &strconv.ErrSyntax
	e.NativeGlob["strconv.ErrRange"] = &strconv.ErrRange
	e.NativeGlob["os.ErrClosed"] = &os.ErrClosed
	e.NativeGlob["os.ErrNotExist"] = &os.ErrNotExist
	e.NativeGlob["os.ErrInvalid"] = &os.ErrInvalid
	e.NativeGlob["io/fs.ErrClosed"] = &fs.ErrClosed
	e.NativeGlob["io/fs.ErrNotExist"] = &fs.ErrNotExist
	e.NativeGlob["io/fs.ErrInvalid"] = &fs.ErrInvalid
	e.NativeGlob["io.EOF"] = &io.EOF
	e.NativeGlob["io.ErrNoProgress"] = &io.ErrNoProgress
	e.NativeGlob["io.ErrUnexpectedEOF"] = &io.ErrUnexpectedEOF
	e.NativeGlob["io.ErrShortWrite"] = &io.ErrShortWrite
	e.NativeGlob["bufio.ErrBufferFull"] = &bufio.ErrBufferFull
	e.NativeGlob["bufio.ErrNegativeCount"] = &bufio.ErrNegativeCount
	e.NativeGlob["bufio.ErrInvalidUnreadByte"] = &bufio.ErrInvalidUnreadByte
	e.NativeGlob["bufio.ErrInvalidUnreadRune"] = &bufio.ErrInvalidUnreadRune
	e.PreloadGlobals(st)
}
