package main

import (
	"encoding/json"

	"verif/engine/sym"
)

func init() {
	register(&Spec{
		ID:       "C13",
		Pkgs:     []string{"root", "rules", "filterutil", "lookup", "filterlist"},
		InitPkgs: []string{"filterutil", "rules", "filterlist", "lookup", "root"},
		Prepare: func(rc *RunCtx) error {
			nr := enumerateMaskRules(1, 0, rc.Seed)
			rx := enumerateRegexRules(1)
			nr.texts = append(nr.texts, rx.texts...)
			nr.rules = append(nr.rules, rx.rules...)
			// an expression Go rejects: the rule stays invalid
			nr.texts = append(nr.texts, "/a(?!b)/")
			nr.rules = append(nr.rules, nil)
			rc.Natives["rules"] = nr
			b, _ := json.Marshal(nr.texts)
			rc.ReplayFiles["VERIF_RULES"] = b
			return nil
		},
		Jobs: func(tier string) []Job {
			var jobs []Job
			for hl := 1; hl <= 4; hl++ {
				jobs = append(jobs, Job{Pkg: "root", Func: "verifC13Pool", Args: []int64{int64(hl)}})
			}
			jobs = append(jobs, Job{Pkg: "filterlist", Func: "verifC13Cache"})
			for k := 1; k <= 3; k++ {
				jobs = append(jobs, Job{Pkg: "root", Func: "verifC13Rewrites", Args: []int64{int64(k), 4}})
			}
			for _, ks := range [][2]int64{{1, 1}, {1, 2}, {2, 1}} {
				jobs = append(jobs, Job{Pkg: "root", Func: "verifC13Engine", Args: []int64{ks[0], ks[1]},
					Redirect: map[string]string{"(*" + modPath + ".NetworkEngine).MatchAll": "verifMatchAllHist"}})
			}
			maxK := 2
			if tier == "thorough" {
				maxK = 3
			}
			for k := 0; k <= maxK; k++ {
				for s := 0; s <= 1; s++ {
					jobs = append(jobs, Job{Pkg: "rules", Func: "verifC13NoSharing", Args: []int64{int64(k), int64(s)}})
				}
			}
			nr := curRun.Natives["rules"].(*nativeRules)
			for _, L := range []int64{3, 6} {
				for _, j := range batchJobs("verifC13LazyCompile", len(nr.texts), 10, L) {
					j.Raw = true // the real matchPattern, not the literal-pattern stub of the table harnesses
					jobs = append(jobs, j)
				}
			}
			for _, sh := range [][][2]int{{{5, 0}}, {{3, 0}}, {{5, 0}, {3, 0}}, {{0, 1}, {5, 0}}} {
				for _, ul := range []int64{5, 6} {
					jobs = append(jobs, Job{Pkg: "root", Func: "verifC13Repeat", Args: []int64{int64(len(sh)), c01Shape(sh...), ul}})
				}
			}
			return jobs
		},
		Setup: func(e *sym.Engine, st *sym.State, l *sym.Loaded) {
			setupDNS(e, st, l)
			e.Redirects[qRetrieveNet] = l.Pkgs[modPath].Func("verifRetrieveNetworkRule")
			e.Ctx["native:rule"] = nativeRuleProvider(curRun.Natives["rules"].(*nativeRules))
		},
		AbstractHash: true,
		MustReach:    []string{"c13.pool", "c13.cache", "c13.nosharing", "c13.lazy", "c13.repeat", "c13.rewrites", "c13.engine"},
		Bounds: map[string]string{
			"quick":    "one inductive step per piece of hidden state from an arbitrary valid pre-state: pooled request with arbitrary contents (hostnames of 1..4 symbolic bytes); rule cache with any subset of 6 indexes of a concrete list already materialised; lazily compiled pattern warm vs cold for every 1-token mask pattern and 1-atom regular expression plus an invalid one, URLs of 3 and 6 symbolic bytes; verdict evaluation on k<=2 request and s<=1 referrer symbolic rules with spare capacity in the caller's slices; network engine queried before and after another query (1..2 rules, URLs of 5..6 bytes); DNSResult getters asked twice on 1..3 symbolic rewrite rules; Engine.MatchRequest after another request (k<=2 request rules, s<=2 referrer rules each, referrers chosen among two hosts x two paths; MatchAll replaced by lists)",
			"thorough": "verdict evaluation with k<=3",
		},
		Outside:     []string{"query histories longer than the inductive step (covered by the invariants, not enumerated)", "state not listed in the property's anchors", "the cosmetic engine: its history independence is decided in C15 (warm variant: a query after another query, the earlier result overwritten by the caller)"},
		Assumptions: []string{"representation invariants: cache[i] = parse(list, i); regex != nil => compiled from the pattern; invalid => compilation fails (established by the only writers, which the steps execute)"},
		Rule:        "pre-states are symbolic (which entries are cached, what the pooled object contains); one state per feasible path",
	})
}
