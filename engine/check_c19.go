package main

import "verif/engine/sym"

func init() {
	register(&Spec{
		ID:       "C19",
		Pkgs:     []string{"root", "rules", "filterutil", "lookup", "filterlist"},
		InitPkgs: []string{"filterutil", "rules", "filterlist", "lookup", "root"},
		Jobs: func(tier string) []Job {
			var jobs []Job
			maxK := 3
			if tier == "thorough" {
				maxK = 5
			}
			for k := 1; k <= maxK; k++ {
				jobs = append(jobs, Job{Pkg: "filterlist", Func: "verifC19Storage", Args: []int64{int64(k)}})
			}
			for _, bl := range []int64{4, 16} {
				jobs = append(jobs, Job{Pkg: "filterlist", Func: "verifC19File", Args: []int64{bl}, Raw: true})
			}
			shapes := [][][2]int{{{5, 0}}, {{6, 0}}, {{0, 1}}, {{3, 0}}, {{5, 0}, {3, 0}}, {{0, 1}, {3, 0}}, {{5, 0}, {5, 0}}, {{5, 1}, {2, 0}}}
			urlLens := []int64{5, 6}
			if tier == "thorough" {
				urlLens = []int64{4, 5, 6, 7}
			}
			for _, sh := range shapes {
				needsSrc := false
				for _, r := range sh {
					if r[1] > 0 {
						needsSrc = true
					}
				}
				for _, ul := range urlLens {
					srcs := [][2]int64{{-1, 0}}
					if needsSrc {
						srcs = [][2]int64{{2, 1}, {4, 0}}
					}
					for _, s := range srcs {
						jobs = append(jobs, Job{Pkg: "root", Func: "verifC19Tables", Args: []int64{int64(len(sh)), c01Shape(sh...), 4, ul, s[0], s[1]}})
					}
				}
			}
			for _, c := range [][3]int64{{1, 0, 2}, {2, 0, 2}, {1, 1, 2}, {0, 1, 5}, {2, 1, 2}} {
				jobs = append(jobs, Job{Pkg: "root", Func: "verifC19DNS", Args: []int64{c[0], c[1], c[2]}})
			}
			return jobs
		},
		Setup: func(e *sym.Engine, st *sym.State, l *sym.Loaded) {
			setupDNS(e, st, l)
			e.Redirects[qRetrieveNet] = l.Pkgs[modPath].Func("verifRetrieveNetworkRuleAny")
		},
		AbstractHash: true,
		MustReach:    []string{"c19.retrieval", "c19.inmemory", "c19.cached", "c19.failed", "c19.afterclose", "c19.dns", "c19.file.cached", "c19.file.lost", "c19.dns.served"},
		Bounds: map[string]string{
			"quick":    "tables: 1..2 rules (shapes as C01), URL of 5..6 symbolic bytes, every storage retrieval during the query may fail independently (symbolic fault bit per call), and a rule none of whose retrievals failed must still be served; DNS engine: 1..3 rules, every host-rule and network-rule retrieval may fail; storage: 1..3 retrievals of two indexes from a list that may fail at every call; storage over a file-backed list (file model) whose storage or file handle is closed, cold or warm, then retrieval, typed helpers and scan",
			"thorough": "URLs of 4..7 bytes; storage sequences up to 5 retrievals",
		},
		Outside:     []string{"the operating-system behaviour of a closed file descriptor beyond the file model (Seek and Read on a closed file return an error)", "more than 2 rules per request"},
		Assumptions: []string{"a failing list makes RuleStorage.RetrieveNetworkRule return nil (checked on the real RetrieveRule in the storage harness)"},
		Rule:        "fault schedule = one symbolic Boolean per retrieval; one state per feasible path",
	})
}
