package sym

import (
	"fmt"
	"time"
	"go/token"
	"go/types"
	"reflect"
	"sort"
	"strings"

	"golang.org/x/tools/go/ssa"
)

// Intrinsic implements a call inside the engine.  It returns the successor
// states (nil = continue with st itself, result already stored with setResult).
type Intrinsic func(e *Engine, st *State, call ssa.CallInstruction, args []Value) []*State

// Event is a finding produced during exploration.
type Event struct {
	Kind   string // "assert", "panic", "unsupported", "unwind", "budget"
	Label  string
	Pos    string
	Model  map[string]uint64 // input name -> value (nil when not available)
	Detail string
}

// Stats are per-job counters.
type Stats struct {
	Steps, Forks, Merges, MergeFails, Paths, AssumePruned int
	AssertQueries, AssertUnsat, AssertSat, AssertUnknown int
}

// Engine executes one job at a time on one worker.
type Engine struct {
	Prog       *ssa.Program
	TT         *TermTable
	Solver     *Solver
	Intrinsics map[string]Intrinsic
	Redirects  map[string]*ssa.Function // callee name -> harness function
	// OpaquePkgs: calls into these packages return the zero value of their result type (used while
	// interpreting a package initialiser whose variables the harness never reads, e.g. parsed templates)
	OpaquePkgs map[string]bool
	RedirectMatch func(name string) string // optional: callee name -> harness function name in RedirectPkg
	RedirectPkg   *ssa.Package
	NativeGlob map[string]interface{} // qualified name -> pointer to the native variable
	Events     []Event
	Reach      map[string]int
	Stats      Stats
	Inputs     []*Term        // nondet inputs created (for models)
	inputSeen  map[string]bool
	Encoded    map[string]bool // functions executed from SSA
	StubsUsed  map[string]int
	nextState  int
	pdomCache  map[*ssa.Function]map[*ssa.BasicBlock]*ssa.BasicBlock
	rpoCache   map[*ssa.Function]map[*ssa.BasicBlock]int
	MaxSteps   int
	Deadline   time.Time
	MaxVisits  int
	NoMerge    bool
	EagerFeas  bool
	InjectiveUF string // name prefix of uninterpreted functions for which collision-free counterexamples are preferred
	CrossEvery   int    // re-decide every n-th assertion query on CrossSolver (0 = off)
	CrossSolver  string
	CrossChecked int
	CrossUnknown int
	crossCount   int
	stopOnAssertFail bool
	Trace      bool
	uniq       int
	// Extra per-check context (native objects etc.)
	Ctx map[string]interface{}
	// globals of interpreted packages live in the base state
	InterpPkgs map[string]bool
	nativeMemo map[uintptr]int
	typeCache  map[string]types.Type
	AssertLabels map[string]*AssertStat
	ForkSites map[string]int
	Outside   map[string]int // paths cut because they leave the modelled fragment
	RecordEvents bool          // C14: record sync/memory events on shared objects
	SharedLimit  int           // objects with id < SharedLimit are shared between the goroutines
	Traces       [][]SyncEvent // one per completed path
	hardConds map[int]bool // conditions of deliberate case splits (choices, concretisations): never merged away
}

type AssertStat struct{ Checked, Failed, Unknown int }

type deferred struct {
	fn   FuncV
	args []Value
	// for invoke-mode / builtin defers
	builtin string
}

// Frame is one activation record.
type Frame struct {
	owner   int
	fn      *ssa.Function
	block   *ssa.BasicBlock
	prev    *ssa.BasicBlock
	ip      int
	regs    map[ssa.Value]Value
	bind    []Value
	defers  []deferred
	call    ssa.CallInstruction // the call instruction in the caller (nil for root / deferred)
	discard bool                // result is discarded (deferred call)
	visits  map[*ssa.BasicBlock]int
}

// State is one symbolic execution state.
type State struct {
	id      int
	frames  []*Frame
	heap    []*Obj
	pc      []*Term
	globals map[*ssa.Global]int
	natives map[uintptr]int // native pointer -> object id (imports)
	events  []SyncEvent     // C14: synchronisation and shared-memory events of this path
	done    bool
	retVal  Value // return value of the root function
}

type engineError struct{ msg string }

func (e *Engine) fail(format string, a ...interface{}) {
	panic(engineError{fmt.Sprintf(format, a...)})
}

func NewEngine(prog *ssa.Program, solverKind string, timeoutMs int) (*Engine, error) {
	tt := NewTermTable()
	s, err := NewSolver(tt, solverKind, timeoutMs)
	if err != nil {
		return nil, err
	}
	e := &Engine{Prog: prog, TT: tt, Solver: s, Intrinsics: map[string]Intrinsic{}, Redirects: map[string]*ssa.Function{},
		NativeGlob: map[string]interface{}{}, Reach: map[string]int{}, inputSeen: map[string]bool{},
		Encoded: map[string]bool{}, StubsUsed: map[string]int{}, pdomCache: map[*ssa.Function]map[*ssa.BasicBlock]*ssa.BasicBlock{},
		rpoCache: map[*ssa.Function]map[*ssa.BasicBlock]int{}, hardConds: map[int]bool{}, Outside: map[string]int{}, MaxSteps: 50_000_000, MaxVisits: 20000, Ctx: map[string]interface{}{}, InterpPkgs: map[string]bool{},
		nativeMemo: map[uintptr]int{}, typeCache: map[string]types.Type{}, AssertLabels: map[string]*AssertStat{}}
	registerIntrinsics(e)
	return e, nil
}

func (e *Engine) Close() { e.Solver.Close() }

// ---------------------------------------------------------------- states

func (e *Engine) newState() *State {
	e.nextState++
	return &State{id: e.nextState, globals: map[*ssa.Global]int{}, natives: map[uintptr]int{}}
}

// Clone forks a state: frames and heap objects are shared copy-on-write.
func (e *Engine) Clone(st *State) *State {
	e.nextState++
	n := &State{id: e.nextState}
	n.frames = append([]*Frame(nil), st.frames...)
	n.heap = append([]*Obj(nil), st.heap...)
	n.pc = append([]*Term(nil), st.pc...)
	n.globals = make(map[*ssa.Global]int, len(st.globals))
	for k, v := range st.globals {
		n.globals[k] = v
	}
	n.events = append([]SyncEvent(nil), st.events...)
	n.natives = make(map[uintptr]int, len(st.natives))
	for k, v := range st.natives {
		n.natives[k] = v
	}
	// the original must also stop owning what is now shared
	e.nextState++
	st.id = e.nextState
	return n
}

func (st *State) top() *Frame { return st.frames[len(st.frames)-1] }

// wframe returns the top frame, privately owned (copy-on-write).
func (st *State) wframe() *Frame { return st.wframeAt(len(st.frames) - 1) }

func (st *State) wframeAt(i int) *Frame {
	f := st.frames[i]
	if f.owner == st.id {
		return f
	}
	n := *f
	n.owner = st.id
	n.regs = make(map[ssa.Value]Value, len(f.regs)+4)
	for k, v := range f.regs {
		n.regs[k] = v
	}
	n.defers = append([]deferred(nil), f.defers...)
	n.visits = make(map[*ssa.BasicBlock]int, len(f.visits))
	for k, v := range f.visits {
		n.visits[k] = v
	}
	st.frames[i] = &n
	return &n
}

// addHardPC adds a case-split condition that must survive merging.
func (e *Engine) addHardPC(st *State, c *Term) {
	if c.Op == OpConst {
		return
	}
	e.hardConds[c.ID] = true
	st.pc = append(st.pc, c)
}

func (st *State) addPC(c *Term) {
	if c.Op == OpConst {
		return
	}
	st.pc = append(st.pc, c)
}

// ---------------------------------------------------------------- heap

func (e *Engine) alloc(st *State, v Value) int {
	st.heap = append(st.heap, &Obj{owner: st.id, Val: v})
	return len(st.heap) - 1
}

func (e *Engine) allocMap(st *State) int {
	st.heap = append(st.heap, &Obj{owner: st.id, IsMap: true})
	return len(st.heap) - 1
}

func (e *Engine) obj(st *State, id int) *Obj {
	if id < 0 || id >= len(st.heap) {
		e.fail("bad object id %d", id)
	}
	o := st.heap[id]
	if o.Poison {
		e.fail("access to poisoned (unmergeable) object %d %s", id, o.Note)
	}
	return o
}

func (e *Engine) wobj(st *State, id int) *Obj {
	o := e.obj(st, id)
	if o.owner == st.id {
		return o
	}
	n := *o
	n.owner = st.id
	if o.IsMap {
		n.Keys = append([]Value(nil), o.Keys...)
		n.Vals = append([]Value(nil), o.Vals...)
	}
	if o.Iter != nil {
		it := *o.Iter
		n.Iter = &it
	}
	st.heap[id] = &n
	return &n
}

// getPath reads the sub-value of v at path.
func (e *Engine) getPath(st *State, v Value, path []PathEl) Value {
	for pi, p := range path {
		switch x := v.(type) {
		case StructV:
			v = x.F[p.I]
		case ArrayV:
			if p.T == nil {
				if p.I < 0 || p.I >= len(x.E) {
					e.fail("getPath: index %d out of range %d", p.I, len(x.E))
				}
				v = x.E[p.I]
			} else {
				// symbolic index: ite-chain over elements of the remaining path
				rest := path[pi+1:]
				var res Value
				for i := len(x.E) - 1; i >= 0; i-- {
					ev := e.getPath(st, x.E[i], rest)
					if res == nil {
						res = ev
						continue
					}
					m, ok := e.mergeValue(e.TT.Eq(p.T, e.TT.Int(int64(i))), ev, res)
					if !ok {
						e.fail("symbolic index over non-mergeable elements")
					}
					res = m
				}
				if res == nil {
					e.fail("symbolic index into empty array")
				}
				return res
			}
		default:
			e.fail("getPath: cannot descend into %T", v)
		}
	}
	return v
}

// setPath returns v with the sub-value at path replaced by nv.
func (e *Engine) setPath(st *State, v Value, path []PathEl, nv Value) Value {
	if len(path) == 0 {
		return nv
	}
	p := path[0]
	switch x := v.(type) {
	case StructV:
		f := append([]Value(nil), x.F...)
		f[p.I] = e.setPath(st, x.F[p.I], path[1:], nv)
		return StructV{F: f}
	case ArrayV:
		el := append([]Value(nil), x.E...)
		if p.T == nil {
			if p.I < 0 || p.I >= len(el) {
				e.fail("setPath: index %d out of range %d", p.I, len(el))
			}
			el[p.I] = e.setPath(st, x.E[p.I], path[1:], nv)
		} else {
			for i := range el {
				upd := e.setPath(st, x.E[i], path[1:], nv)
				m, ok := e.mergeValue(e.TT.Eq(p.T, e.TT.Int(int64(i))), upd, x.E[i])
				if !ok {
					e.fail("symbolic store over non-mergeable elements")
				}
				el[i] = m
			}
		}
		return ArrayV{E: el}
	}
	e.fail("setPath: cannot descend into %T", v)
	return nil
}

func (e *Engine) load(st *State, p PtrV) Value {
	e.recordAccess(st, "read", p.Obj, p.Path)
	o := e.obj(st, p.Obj)
	return e.getPath(st, o.Val, p.Path)
}

func (e *Engine) store(st *State, p PtrV, v Value) {
	e.recordAccess(st, "write", p.Obj, p.Path)
	o := e.wobj(st, p.Obj)
	o.Val = e.setPath(st, o.Val, p.Path, v)
}

// sliceElems returns the element values of a concrete-length slice.
func (e *Engine) sliceElems(st *State, s SliceV) []Value {
	if s.Arr == -1 || s.Len == 0 {
		return nil
	}
	e.recordAccess(st, "read", s.Arr, nil)
	arr := e.obj(st, s.Arr).Val.(ArrayV)
	return arr.E[s.Off : s.Off+s.Len]
}

// newSlice allocates a backing array with the given elements (cap == len unless extra).
func (e *Engine) newSlice(st *State, elems []Value, capacity int, zero Value) SliceV {
	if capacity < len(elems) {
		capacity = len(elems)
	}
	el := make([]Value, capacity)
	copy(el, elems)
	for i := len(elems); i < capacity; i++ {
		el[i] = zero
	}
	id := e.alloc(st, ArrayV{E: el})
	return SliceV{Arr: id, Off: 0, Len: len(elems), Cap: capacity}
}

// ---------------------------------------------------------------- globals

func (e *Engine) globalPtr(st *State, g *ssa.Global) PtrV {
	if id, ok := st.globals[g]; ok {
		return PtrV{Obj: id}
	}
	elemT := g.Type().(*types.Pointer).Elem()
	name := g.Pkg.Pkg.Path() + "." + g.Name()
	var v Value
	if ptr, ok := e.NativeGlob[name]; ok {
		if f, isF := ptr.(func() reflect.Value); isF {
			v = e.FromNative(st, f(), elemT)
		} else {
			v = e.FromNative(st, reflect.ValueOf(ptr).Elem(), elemT)
		}
	} else if e.InterpPkgs[g.Pkg.Pkg.Path()] || strings.HasSuffix(g.Name(), "init$guard") || strings.HasPrefix(g.Name(), VerifPrefix) {
		v = e.zero(elemT)
	} else {
		e.fail("global %s of a non-interpreted package is not registered for native import", name)
	}
	id := e.alloc(st, v)
	st.globals[g] = id
	return PtrV{Obj: id}
}

// ---------------------------------------------------------------- registers

func (e *Engine) get(st *State, v ssa.Value) Value {
	switch x := v.(type) {
	case *ssa.Const:
		return e.constVal(x)
	case *ssa.Global:
		return e.globalPtr(st, x)
	case *ssa.Function:
		return FuncV{Fn: x}
	case *ssa.FreeVar:
		f := st.top()
		for i, fv := range f.fn.FreeVars {
			if fv == x {
				return f.bind[i]
			}
		}
		e.fail("free var %s not found", x.Name())
	case *ssa.Builtin:
		return OpaqueV{Kind: "builtin", Native: x.Name()}
	}
	r, ok := st.top().regs[v]
	if !ok {
		e.fail("register %s (%T) undefined in %s", v.Name(), v, st.top().fn)
	}
	return r
}

func (e *Engine) set(st *State, v ssa.Value, val Value) {
	st.wframe().regs[v] = val
}

func (e *Engine) constVal(c *ssa.Const) Value {
	t := c.Type()
	if c.Value == nil {
		return e.zero(t)
	}
	if tp, ok := t.(*types.TypeParam); ok {
		e.fail("const of type param %v", tp)
	}
	b, ok := t.Underlying().(*types.Basic)
	if !ok {
		e.fail("const of non-basic type %v", t)
	}
	if w, signed, ok := basicWidth(b); ok {
		if w == 0 {
			return e.TT.Bool(constantBool(c))
		}
		if signed {
			return e.TT.Const(w, uint64(c.Int64()))
		}
		return e.TT.Const(w, c.Uint64())
	}
	if b.Info()&types.IsString != 0 {
		return e.ConcreteStr(constantString(c))
	}
	if b.Info()&types.IsFloat != 0 {
		return FloatV{F: c.Float64()}
	}
	e.fail("const: unsupported basic %v", b)
	return nil
}

// ---------------------------------------------------------------- events

func (e *Engine) posOf(st *State, pos token.Pos) string {
	if pos.IsValid() {
		p := e.Prog.Fset.Position(pos)
		return fmt.Sprintf("%s:%d", p.Filename, p.Line)
	}
	if len(st.frames) > 0 {
		f := st.top()
		return f.fn.String()
	}
	return "?"
}

func (e *Engine) stackOf(st *State) string {
	var parts []string
	for i := len(st.frames) - 1; i >= 0 && len(parts) < 8; i-- {
		parts = append(parts, st.frames[i].fn.String())
	}
	return strings.Join(parts, " <- ")
}

// modelFor asks the solver for a model of pc ∧ extra over all inputs.
func (e *Engine) modelFor(st *State, extra ...*Term) (Res, map[string]uint64) {
	res, m := e.Solver.Check(st.pc, extra, e.Inputs)
	if res != Sat {
		return res, nil
	}
	out := map[string]uint64{}
	for _, in := range e.Inputs {
		if v, ok := m[in]; ok {
			out[in.Name] = v
		}
	}
	return res, out
}

// feasible reports whether pc ∧ c is satisfiable (Unknown counts as feasible).
func (e *Engine) feasible(st *State, c *Term) bool {
	if c.Op == OpConst {
		return c.Val != 0
	}
	r, _ := e.Solver.Check(st.pc, []*Term{c}, nil)
	return r != Unsat
}

// reportPanic handles a Go run-time panic whose condition is viol.  It returns
// false if the state cannot continue (the panic is certain).
func (e *Engine) reportPanic(st *State, pos token.Pos, msg string, viol *Term) bool {
	if viol.Op == OpConst && viol.Val == 0 {
		return true
	}
	res, model := e.modelFor(st, viol)
	if res == Unsat {
		st.addPC(e.TT.Not(viol))
		return true
	}
	ev := Event{Kind: "panic", Label: msg, Pos: e.posOf(st, pos), Model: model, Detail: e.stackOf(st)}
	if res == Unknown {
		ev.Kind = "unknown"
		ev.Detail = "solver unknown on panic condition; " + ev.Detail
	}
	e.addEvent(ev)
	if viol.Op == OpConst {
		st.done = true
		e.Stats.Paths++
		return false
	}
	st.addPC(e.TT.Not(viol))
	if !e.feasible(st, e.TT.True) {
		st.done = true
		return false
	}
	return true
}

func (e *Engine) addEvent(ev Event) {
	// keep at most a few events per (kind,label,pos)
	n := 0
	for _, x := range e.Events {
		if x.Kind == ev.Kind && x.Label == ev.Label && x.Pos == ev.Pos {
			n++
		}
	}
	if n < 3 {
		e.Events = append(e.Events, ev)
	}
}

// ---------------------------------------------------------------- inputs

func (e *Engine) NewInput(name string, w int, set *ByteSet) *Term {
	if set != nil && set.Count() == 1 {
		for v := 0; v < 256; v++ {
			if set.Has(byte(v)) {
				return e.TT.Const(w, uint64(v))
			}
		}
	}
	t := e.TT.Var(name, w, set)
	if !e.inputSeen[name] {
		e.inputSeen[name] = true
		e.Inputs = append(e.Inputs, t)
	}
	return t
}

// domainConstraint builds (without simplification) the constraint v ∈ set.
func (e *Engine) domainConstraint(v *Term) *Term {
	if v.Op != OpVar || v.Set == nil {
		return e.TT.True
	}
	tt := e.TT
	var ors []*Term
	i := 0
	for i < 256 {
		if !v.Set.Has(byte(i)) {
			i++
			continue
		}
		j := i
		for j+1 < 256 && v.Set.Has(byte(j+1)) {
			j++
		}
		if i == j {
			ors = append(ors, tt.mk(&Term{Op: OpEq, Args: []*Term{tt.Const(v.W, uint64(i)), v}}))
		} else {
			lo := tt.mk(&Term{Op: OpUle, Args: []*Term{tt.Const(v.W, uint64(i)), v}})
			hi := tt.mk(&Term{Op: OpUle, Args: []*Term{v, tt.Const(v.W, uint64(j))}})
			ors = append(ors, tt.mk(&Term{Op: OpAnd, Args: []*Term{lo, hi}}))
		}
		i = j + 1
	}
	if len(ors) == 1 {
		return ors[0]
	}
	sort.Slice(ors, func(a, b int) bool { return ors[a].ID < ors[b].ID })
	return tt.mk(&Term{Op: OpOr, Args: ors})
}

func (e *Engine) fresh(prefix string) string {
	e.uniq++
	return fmt.Sprintf("%s#%d", prefix, e.uniq)
}

// NewState creates an empty state.
func (e *Engine) NewState() *State { return e.newState() }

// SyncEvent is one event of a path: lock/unlock/rlock/runlock on a mutex, or a
// read/write of a shared location (object id and first path element).
type SyncEvent struct {
	Kind string // lock unlock rlock runlock read write
	Loc  string
	At   string
}

func (e *Engine) recordAccess(st *State, kind string, obj int, path []PathEl) {
	if !e.RecordEvents || obj < 0 || obj >= e.SharedLimit {
		return
	}
	loc := fmt.Sprintf("o%d", obj)
	if _, isArr := st.heap[obj].Val.(ArrayV); !isArr && len(path) > 0 && path[0].T == nil {
		// struct objects: one location per field; backing arrays: one location for the whole array
		loc += fmt.Sprintf(".%d", path[0].I)
	}
	at := ""
	if len(st.frames) > 0 {
		at = st.top().fn.Name()
	}
	// collapse repeats
	if n := len(st.events); n > 0 && st.events[n-1].Kind == kind && st.events[n-1].Loc == loc {
		return
	}
	st.events = append(st.events, SyncEvent{kind, loc, at})
}

// RecordSync records a mutex / pseudo-mutex operation.
func (e *Engine) RecordSync(st *State, kind string, v Value) {
	if !e.RecordEvents {
		return
	}
	loc := "?"
	if p, ok := v.(PtrV); ok {
		loc = fmt.Sprintf("m%d", p.Obj)
		for _, el := range p.Path {
			loc += fmt.Sprintf(".%d", el.I)
		}
	}
	st.events = append(st.events, SyncEvent{kind, loc, ""})
}
