package sym

import (
	"fmt"
	"os"
	"strings"

	"golang.org/x/tools/go/packages"
	"golang.org/x/tools/go/ssa"
	"golang.org/x/tools/go/ssa/ssautil"
)

// Loaded is a built SSA program of the repository plus overlay harness files.
type Loaded struct {
	Prog *ssa.Program
	Pkgs map[string]*ssa.Package // by import path
}

// Load builds SSA for the given package patterns in dir with overlay files.
func Load(dir string, patterns []string, overlay map[string][]byte) (*Loaded, error) {
	env := append(os.Environ(), "GOFLAGS=-mod=mod", "GOPROXY=off", "GOSUMDB=off", "GOTOOLCHAIN=local")
	cfg := &packages.Config{
		Mode:    packages.LoadAllSyntax,
		Dir:     dir,
		Overlay: overlay,
		Env:     env,
	}
	pkgs, err := packages.Load(cfg, patterns...)
	if err != nil {
		return nil, err
	}
	var errs []string
	packages.Visit(pkgs, nil, func(p *packages.Package) {
		for _, e := range p.Errors {
			errs = append(errs, e.Error())
		}
	})
	if len(errs) > 0 {
		return nil, fmt.Errorf("package errors:\n%s", strings.Join(errs, "\n"))
	}
	prog, _ := ssautil.AllPackages(pkgs, ssa.InstantiateGenerics)
	prog.Build()
	l := &Loaded{Prog: prog, Pkgs: map[string]*ssa.Package{}}
	for _, p := range prog.AllPackages() {
		l.Pkgs[p.Pkg.Path()] = p
	}
	return l, nil
}

// RunInit executes the init function of an interpreted package concretely.
func (e *Engine) RunInit(st *State, pkg *ssa.Package) {
	e.InterpPkgs[pkg.Pkg.Path()] = true
	init := pkg.Func("init")
	if init == nil {
		return
	}
	// calls to the init of other packages are skipped unless interpreted
	for _, p := range e.Prog.AllPackages() {
		if f := p.Func("init"); f != nil && p != pkg && !e.InterpPkgs[p.Pkg.Path()] {
			name := f.String()
			if _, ok := e.Intrinsics[name]; !ok {
				e.Intrinsics[name] = func(e *Engine, st *State, c ssa.CallInstruction, a []Value) []*State { return nil }
			}
		}
	}
	e.pushFrame(st, init, nil, nil, nil, false)
	depth := len(st.frames)
	rs := e.exploreFrame(st)
	_ = depth
	if len(rs) != 1 && !(len(rs) == 0 && st.done) {
		e.fail("init of %s did not run as a single concrete path (%d states)", pkg.Pkg.Path(), len(rs))
	}
	if st.done {
		// root-level init: the frame stack is empty again; revive the state
		st.done = false
		e.Stats.Paths = 0
}
}

// PreloadGlobals allocates every registered native global and every global of
// the interpreted packages in st, so that later states agree on them.
func (e *Engine) PreloadGlobals(st *State) {
	for _, p := range e.Prog.AllPackages() {
		for _, m := range p.Members {
			g, ok := m.(*ssa.Global)
			if !ok {
				continue
			}
			name := p.Pkg.Path() + "." + g.Name()
			if _, isNative := e.NativeGlob[name]; isNative || e.InterpPkgs[p.Pkg.Path()] {
				e.globalPtr(st, g)
			}
		}
	}
}

// globalPtrByName returns the pointer to a package-level variable.
func (e *Engine) globalPtrByName(st *State, pkgPath, name string) PtrV {
	for _, p := range e.Prog.AllPackages() {
		if p.Pkg.Path() == pkgPath {
			if g, ok := p.Members[name].(*ssa.Global); ok {
				return e.globalPtr(st, g)
			}
		}
	}
	e.fail("global %s.%s not found", pkgPath, name)
	return nilPtr
}
