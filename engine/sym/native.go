package sym

import (
	"fmt"
	"go/types"
	"reflect"
	"regexp"
	"unsafe"
)

// natives maps native pointer addresses to heap object ids (per engine; only
// used while building base states, before any fork).

// FromNative imports a value of the live native process into the symbolic heap
// of st, structurally.  t is the static go/types type of the value.
func (e *Engine) FromNative(st *State, rv reflect.Value, t types.Type) Value {
	tt := e.TT
	switch u := t.Underlying().(type) {
	case *types.Basic:
		if w, signed, ok := basicWidth(u); ok {
			if w == 0 {
				return tt.Bool(rv.Bool())
			}
			if signed {
				return tt.Const(w, uint64(rv.Int()))
			}
			return tt.Const(w, rv.Uint())
		}
		if u.Info()&types.IsString != 0 {
			return e.ConcreteStr(rv.String())
		}
		if u.Info()&types.IsFloat != 0 {
			return FloatV{rv.Float()}
		}
		if u.Kind() == types.UnsafePointer {
			if rv.Pointer() == 0 {
				return nilPtr
			}
		}
	case *types.Pointer:
		if rv.IsNil() {
			return nilPtr
		}
		// opaque kinds
		if named, ok := u.Elem().(*types.Named); ok && named.Obj().Pkg() != nil {
			if named.Obj().Pkg().Path() == "regexp" && named.Obj().Name() == "Regexp" {
				re := (*regexp.Regexp)(unsafe.Pointer(rv.Pointer()))
				return OpaqueV{Kind: "regexp", Native: re}
			}
		}
		addr := rv.Pointer()
		if id, ok := st.natives[addr]; ok {
			return PtrV{Obj: id}
		}
		id := e.alloc(st, nil)
		st.natives[addr] = id
		st.heap[id].Val = e.FromNative(st, rv.Elem(), u.Elem())
		return PtrV{Obj: id}
	case *types.Slice:
		if rv.IsNil() {
			return SliceV{Arr: -1}
		}
		n := rv.Len()
		el := make([]Value, rv.Cap())
		z := e.zero(u.Elem())
		full := rv.Slice(0, rv.Cap())
		for i := range el {
			if i < rv.Cap() {
				el[i] = e.FromNative(st, full.Index(i), u.Elem())
			} else {
				el[i] = z
			}
		}
		id := e.alloc(st, ArrayV{E: el})
		return SliceV{Arr: id, Off: 0, Len: n, Cap: rv.Cap()}
	case *types.Array:
		el := make([]Value, rv.Len())
		for i := range el {
			el[i] = e.FromNative(st, rv.Index(i), u.Elem())
		}
		return ArrayV{E: el}
	case *types.Struct:
		f := make([]Value, u.NumFields())
		if rv.NumField() != u.NumFields() {
			e.fail("FromNative: struct %v field count mismatch (%d native vs %d)", t, rv.NumField(), u.NumFields())
		}
		for i := range f {
			f[i] = e.FromNative(st, rv.Field(i), u.Field(i).Type())
		}
		return StructV{F: f}
	case *types.Map:
		if rv.IsNil() {
			return MapV{Obj: -1}
		}
		id := e.allocMap(st)
		// deterministic order: sort by printed key
		keys := rv.MapKeys()
		sortValues(keys)
		for _, k := range keys {
			kv := e.FromNative(st, k, u.Key())
			vv := e.FromNative(st, rv.MapIndex(k), u.Elem())
			o := st.heap[id]
			o.Keys = append(o.Keys, kv)
			o.Vals = append(o.Vals, vv)
		}
		return MapV{Obj: id}
	case *types.Interface:
		if rv.IsNil() {
			return IfaceV{}
		}
		dyn := rv.Elem()
		dt := e.typeFromReflect(dyn.Type())
		return IfaceV{T: dt, V: e.FromNative(st, dyn, dt)}
	case *types.Signature:
		if rv.IsNil() {
			return FuncV{}
		}
		e.fail("FromNative: non-nil func value of type %v", t)
	case *types.Chan:
		return OpaqueV{Kind: "chan"}
	}
	e.fail("FromNative: unsupported type %v", t)
	return nil
}

func sortValues(vs []reflect.Value) {
	key := func(v reflect.Value) string {
		switch v.Kind() {
		case reflect.String:
			return v.String()
		case reflect.Int, reflect.Int8, reflect.Int16, reflect.Int32, reflect.Int64:
			return fmt.Sprintf("%020d", v.Int()+(1<<62))
		case reflect.Uint, reflect.Uint8, reflect.Uint16, reflect.Uint32, reflect.Uint64:
			return fmt.Sprintf("%020d", v.Uint())
		}
		return fmt.Sprint(v)
	}
	for i := 1; i < len(vs); i++ {
		for j := i; j > 0 && key(vs[j-1]) > key(vs[j]); j-- {
			vs[j-1], vs[j] = vs[j], vs[j-1]
		}
	}
}

// typeFromReflect maps a reflect.Type of the native process to the go/types
// type of the loaded program.
func (e *Engine) typeFromReflect(rt reflect.Type) types.Type {
	if rt.PkgPath() != "" && rt.Name() != "" {
		return e.lookupNamed(rt.PkgPath(), rt.Name())
	}
	switch rt.Kind() {
	case reflect.Bool:
		return types.Typ[types.Bool]
	case reflect.Int:
		return types.Typ[types.Int]
	case reflect.Int8:
		return types.Typ[types.Int8]
	case reflect.Int16:
		return types.Typ[types.Int16]
	case reflect.Int32:
		return types.Typ[types.Int32]
	case reflect.Int64:
		return types.Typ[types.Int64]
	case reflect.Uint:
		return types.Typ[types.Uint]
	case reflect.Uint8:
		return types.Typ[types.Uint8]
	case reflect.Uint16:
		return types.Typ[types.Uint16]
	case reflect.Uint32:
		return types.Typ[types.Uint32]
	case reflect.Uint64:
		return types.Typ[types.Uint64]
	case reflect.Uintptr:
		return types.Typ[types.Uintptr]
	case reflect.Float64:
		return types.Typ[types.Float64]
	case reflect.Float32:
		return types.Typ[types.Float32]
	case reflect.String:
		return types.Typ[types.String]
	case reflect.Pointer:
		return types.NewPointer(e.typeFromReflect(rt.Elem()))
	case reflect.Slice:
		return types.NewSlice(e.typeFromReflect(rt.Elem()))
	case reflect.Array:
		return types.NewArray(e.typeFromReflect(rt.Elem()), int64(rt.Len()))
	case reflect.Map:
		return types.NewMap(e.typeFromReflect(rt.Key()), e.typeFromReflect(rt.Elem()))
	}
	e.fail("typeFromReflect: unsupported %v", rt)
	return nil
}

// ImportPtr imports the object behind a native pointer (given as reflect.Value
// of pointer kind) whose pointee has program type named pkgPath.name.
func (e *Engine) ImportPtr(st *State, ptr interface{}, pkgPath, name string) Value {
	t := e.lookupNamed(pkgPath, name)
	return e.FromNative(st, reflect.ValueOf(ptr), types.NewPointer(t))
}

