package sym

import (
	"fmt"
	"regexp/syntax"
)

// EncodeRegexp returns a Bool term that is true iff Go's regexp (Perl syntax,
// unanchored search, as regexp.Compile + MatchString) accepts the byte vector u.
// Bytes are assumed ASCII (callers restrict alphabets / add the assumption).
func (e *Engine) EncodeRegexp(pattern string, u []*Term) (*Term, error) {
	prog, err := CompileRegexpProg(pattern)
	if err != nil {
		return nil, err
	}
	return e.EncodeProg(prog, u), nil
}

// CompileRegexpProg mirrors regexp.Compile's front end.
func CompileRegexpProg(pattern string) (*syntax.Prog, error) {
	re, err := syntax.Parse(pattern, syntax.Perl)
	if err != nil {
		return nil, err
	}
	return syntax.Compile(re.Simplify())
}

type closureItem struct {
	pc   int
	cond syntax.EmptyOp // required empty-width flags on the way
}

// epsClosure computes, for a start pc, all (consuming-or-match pc, required flags) pairs.
func epsClosure(prog *syntax.Prog, start int) []closureItem {
	type key struct {
		pc   int
		cond syntax.EmptyOp
	}
	seen := map[key]bool{}
	var out []closureItem
	var stack []key
	stack = append(stack, key{start, 0})
	for len(stack) > 0 {
		k := stack[len(stack)-1]
		stack = stack[:len(stack)-1]
		if seen[k] {
			continue
		}
		seen[k] = true
		in := &prog.Inst[k.pc]
		switch in.Op {
		case syntax.InstAlt, syntax.InstAltMatch:
			stack = append(stack, key{int(in.Out), k.cond}, key{int(in.Arg), k.cond})
		case syntax.InstNop, syntax.InstCapture:
			stack = append(stack, key{int(in.Out), k.cond})
		case syntax.InstEmptyWidth:
			stack = append(stack, key{int(in.Out), k.cond | syntax.EmptyOp(in.Arg)})
		case syntax.InstFail:
		case syntax.InstMatch, syntax.InstRune, syntax.InstRune1, syntax.InstRuneAny, syntax.InstRuneAnyNotNL:
			out = append(out, closureItem{k.pc, k.cond})
		}
	}
	return out
}

func (e *Engine) isWordByte(b *Term) *Term {
	tt := e.TT
	rng := func(lo, hi byte) *Term {
		return tt.And(tt.Cmp(OpUle, tt.Const(8, uint64(lo)), b), tt.Cmp(OpUle, b, tt.Const(8, uint64(hi))))
	}
	return tt.Or(rng('a', 'z'), rng('A', 'Z'), rng('0', '9'), tt.Eq(b, tt.Const(8, '_')))
}

// flagCond: the empty-width flags f hold at position p of u.
func (e *Engine) flagCond(f syntax.EmptyOp, u []*Term, p int) *Term {
	tt := e.TT
	n := len(u)
	var cs []*Term
	if f&syntax.EmptyBeginText != 0 {
		cs = append(cs, tt.Bool(p == 0))
	}
	if f&syntax.EmptyEndText != 0 {
		cs = append(cs, tt.Bool(p == n))
	}
	if f&syntax.EmptyBeginLine != 0 {
		if p == 0 {
			cs = append(cs, tt.True)
		} else {
			cs = append(cs, tt.Eq(u[p-1], tt.Const(8, '\n')))
		}
	}
	if f&syntax.EmptyEndLine != 0 {
		if p == n {
			cs = append(cs, tt.True)
		} else {
			cs = append(cs, tt.Eq(u[p], tt.Const(8, '\n')))
		}
	}
	if f&(syntax.EmptyWordBoundary|syntax.EmptyNoWordBoundary) != 0 {
		before, after := tt.False, tt.False
		if p > 0 {
			before = e.isWordByte(u[p-1])
		}
		if p < n {
			after = e.isWordByte(u[p])
		}
		boundary := tt.Not(tt.Eq(before, after))
		if f&syntax.EmptyWordBoundary != 0 {
			cs = append(cs, boundary)
		}
		if f&syntax.EmptyNoWordBoundary != 0 {
			cs = append(cs, tt.Not(boundary))
		}
	}
	return tt.And(cs...)
}

func foldTwin(r rune) rune {
	if r >= 'a' && r <= 'z' {
		return r - 32
	}
	if r >= 'A' && r <= 'Z' {
		return r + 32
	}
	return r
}

// runeMatch: instruction in consumes byte b.
func (e *Engine) runeMatch(in *syntax.Inst, b *Term) *Term {
	tt := e.TT
	switch in.Op {
	case syntax.InstRuneAny:
		return tt.True
	case syntax.InstRuneAnyNotNL:
		return tt.Not(tt.Eq(b, tt.Const(8, '\n')))
	case syntax.InstRune1:
		r := in.Rune[0]
		if r > 0x7f {
			return tt.False
		}
		return tt.Eq(b, tt.Const(8, uint64(r)))
	case syntax.InstRune:
		rs := in.Rune
		if len(rs) == 1 {
			r := rs[0]
			if r > 0x7f {
				return tt.False
			}
			m := tt.Eq(b, tt.Const(8, uint64(r)))
			if syntax.Flags(in.Arg)&syntax.FoldCase != 0 {
				if t := foldTwin(r); t != r {
					m = tt.Or(m, tt.Eq(b, tt.Const(8, uint64(t))))
				}
			}
			return m
		}
		var ors []*Term
		for i := 0; i+1 < len(rs); i += 2 {
			lo, hi := rs[i], rs[i+1]
			if lo > 0x7f {
				continue
			}
			if hi > 0x7f {
				hi = 0x7f
			}
			if lo == hi {
				ors = append(ors, tt.Eq(b, tt.Const(8, uint64(lo))))
			} else {
				ors = append(ors, tt.And(tt.Cmp(OpUle, tt.Const(8, uint64(lo)), b), tt.Cmp(OpUle, b, tt.Const(8, uint64(hi)))))
			}
		}
		return tt.Or(ors...)
	}
	panic(fmt.Sprintf("runeMatch: op %v", in.Op))
}

// EncodeProg encodes Pike-VM reachability of prog over u (unanchored search).
func (e *Engine) EncodeProg(prog *syntax.Prog, u []*Term) *Term {
	tt := e.TT
	n := len(u)
	closures := map[int][]closureItem{}
	clo := func(pc int) []closureItem {
		if c, ok := closures[pc]; ok {
			return c
		}
		c := epsClosure(prog, pc)
		closures[pc] = c
		return c
	}
	var accept []*Term
	// active[pc] = guard term at the current position (consuming instructions only)
	active := map[int]*Term{}
	addClosure := func(act map[int]*Term, from int, guard *Term, p int) {
		if guard == tt.False {
			return
		}
		for _, it := range clo(from) {
			g := tt.And(guard, e.flagCond(it.cond, u, p))
			if g == tt.False {
				continue
			}
			if prog.Inst[it.pc].Op == syntax.InstMatch {
				accept = append(accept, g)
				continue
			}
			if old, ok := act[it.pc]; ok {
				act[it.pc] = tt.Or(old, g)
			} else {
				act[it.pc] = g
			}
		}
	}
	for p := 0; p <= n; p++ {
		// unanchored search: a fresh thread starts at every position
		addClosure(active, prog.Start, tt.True, p)
		if p == n {
			break
		}
		next := map[int]*Term{}
		// deterministic order
		pcs := make([]int, 0, len(active))
		for pc := range active {
			pcs = append(pcs, pc)
		}
		sortInts(pcs)
		for _, pc := range pcs {
			g := active[pc]
			in := &prog.Inst[pc]
			m := tt.And(g, e.runeMatch(in, u[p]))
			addClosure(next, int(in.Out), m, p+1)
		}
		active = next
	}
	return tt.Or(accept...)
}

func sortInts(a []int) {
	for i := 1; i < len(a); i++ {
		for j := i; j > 0 && a[j-1] > a[j]; j-- {
			a[j-1], a[j] = a[j], a[j-1]
		}
	}
}

// EvalProgConcrete evaluates the same encoding on a concrete string (used to
// validate the encoder against regexp.MatchString).
func (e *Engine) EvalProgConcrete(pattern string, s string) (bool, error) {
	t, err := e.EncodeRegexp(pattern, e.ConcreteStr(s).B)
	if err != nil {
		return false, err
	}
	if t.Op != OpConst {
		return false, fmt.Errorf("encoding of a concrete string did not fold to a constant")
	}
	return t.Val != 0, nil
}
