package sym

import (
	"fmt"
	"golang.org/x/tools/go/ssa"
)

// mergeStates merges states that stopped at the same control point.  base is
// the length of the common path-condition prefix.  States that cannot be
// merged (different shapes) are returned separately.
func (e *Engine) mergeStates(rs []*State) []*State {
	var out []*State
	pending := rs
	for len(pending) > 0 {
		acc := pending[0]
		var rest []*State
		for _, r := range pending[1:] {
			if m, ok := e.merge2(acc, r); ok {
				acc = m
				e.Stats.Merges++
			} else {
				e.Stats.MergeFails++
				rest = append(rest, r)
			}
		}
		out = append(out, acc)
		pending = rest
	}
	return out
}

func (e *Engine) noteFail(why string) {
	if e.ForkSites != nil {
		e.ForkSites["MERGEFAIL "+why]++
	}
}

func (e *Engine) suffixCond(st *State, base int) *Term {
	if len(st.pc) < base {
		e.fail("merge: path condition shorter than base")
	}
	return e.TT.And(st.pc[base:]...)
}

func samePos(a, b *State) bool {
	if len(a.frames) != len(b.frames) {
		return false
	}
	for i := range a.frames {
		fa, fb := a.frames[i], b.frames[i]
		if fa == fb {
			continue
		}
		if fa.fn != fb.fn || fa.block != fb.block || fa.ip != fb.ip || fa.call != fb.call || fa.discard != fb.discard || len(fa.defers) != len(fb.defers) {
			return false
		}
	}
	return true
}

// merge2 merges b into a (a is consumed).  The merged state satisfies
// pc = prefix ∧ (condA ∨ condB) and every value is ite(condB, vb, va).
func (e *Engine) merge2(a, b *State) (*State, bool) {
	if !samePos(a, b) {
		if e.ForkSites != nil {
			e.ForkSites["MERGEFAIL samePos"]++
		}
		return nil, false
	}
	if len(a.events) != len(b.events) {
		e.noteFail("different event traces")
		return nil, false
	}
	for i := range a.events {
		if a.events[i] != b.events[i] {
			e.noteFail("different event traces")
			return nil, false
		}
	}
	base := 0
	for base < len(a.pc) && base < len(b.pc) && a.pc[base] == b.pc[base] {
		base++
	}
	for _, c := range a.pc[base:] {
		if e.hardConds[c.ID] {
			e.noteFail("hard condition")
			return nil, false
		}
	}
	for _, c := range b.pc[base:] {
		if e.hardConds[c.ID] {
			e.noteFail("hard condition")
			return nil, false
		}
	}
	condA := e.suffixCond(a, base)
	condB := e.suffixCond(b, base)
	// lazily imported globals / native objects must be the same on both sides
	if len(a.natives) != len(b.natives) || len(a.globals) != len(b.globals) {
		e.noteFail("different sets of imported globals/natives")
		return nil, false
	}
	for k, ia := range a.natives {
		if ib, ok := b.natives[k]; !ok || ia != ib {
			e.noteFail("natives differ")
			return nil, false
		}
	}
	// globals maps must agree on common keys
	for g, ia := range a.globals {
		if ib, ok := b.globals[g]; !ok || ia != ib {
			e.noteFail("globals differ")
			return nil, false
		}
	}
	// 1. frames
	type regUpd struct {
		fi int
		k  ssa.Value
		v  Value
	}
	var upds []regUpd
	var dead []regUpd
	for i := range a.frames {
		fa, fb := a.frames[i], b.frames[i]
		if fa == fb {
			continue
		}
		for k, va := range fa.regs {
			vb, ok := fb.regs[k]
			if !ok {
				continue // defined only on one side: dead after the join
			}
			if sameValue(va, vb) {
				continue
			}
			if instr, isI := k.(ssa.Instruction); isI {
				// SSA dominance: a register whose definition does not dominate the
				// current block cannot be used any more (stale value of an earlier iteration)
				if db := instr.Block(); db != fa.block && !db.Dominates(fa.block) {
					dead = append(dead, regUpd{i, k, nil})
					continue
				}
			}
			m, ok := e.mergeValue(condB, vb, va)
			if !ok {
				if e.ForkSites != nil {
					e.ForkSites["MERGEFAIL reg "+k.Name()+" in "+fa.fn.Name()+": "+describe(va)+" vs "+describe(vb)]++
				}
				return nil, false
			}
			upds = append(upds, regUpd{i, k, m})
		}
		for j := range fa.defers {
			da, db := fa.defers[j], fb.defers[j]
			if da.fn.Fn != db.fn.Fn || len(da.args) != len(db.args) {
				e.noteFail("defers differ")
				return nil, false
			}
			for q := range da.args {
				if !sameValue(da.args[q], db.args[q]) {
					e.noteFail("defer args")
					return nil, false
				}
			}
		}
	}
	// 2. heap
	type objUpd struct {
		id int
		o  *Obj
	}
	var oupds []objUpd
	n := len(a.heap)
	if len(b.heap) < n {
		n = len(b.heap)
	}
	var poisonIDs []int
	for id := 0; id < n; id++ {
		oa, ob := a.heap[id], b.heap[id]
		if oa == ob {
			continue
		}
		mo, ok := e.mergeObj(condB, oa, ob)
		if !ok {
			mo = &Obj{Poison: true, Note: "merge"}
			poisonIDs = append(poisonIDs, id)
		}
		oupds = append(oupds, objUpd{id, mo})
	}
	if len(poisonIDs) > 0 {
		ra := e.reachable(a, b)
		rb := e.reachable(b, a)
		for _, id := range poisonIDs {
			if ra[id] || rb[id] {
				if e.ForkSites != nil {
					e.ForkSites[fmt.Sprintf("MERGEFAIL obj %d: %s vs %s", id, describe(a.heap[id].Val), describe(b.heap[id].Val))]++
				}
				return nil, false
			}
		}
	}
	// commit into a
	for _, u := range upds {
		a.wframeAt(u.fi).regs[u.k] = u.v
	}
	for _, u := range dead {
		delete(a.wframeAt(u.fi).regs, u.k)
	}
	// registers only defined in b (dead or later-defined): copy for safety
	for i := range a.frames {
		fa, fb := a.frames[i], b.frames[i]
		if fa == fb {
			continue
		}
		for k, vb := range fb.regs {
			if _, ok := fa.regs[k]; !ok {
				a.wframeAt(i).regs[k] = vb
			}
		}
	}
	for _, u := range oupds {
		u.o.owner = a.id
		a.heap[u.id] = u.o
	}
	for id := n; id < len(b.heap); id++ {
		a.heap = append(a.heap, b.heap[id])
	}
	for g, ib := range b.globals {
		if _, ok := a.globals[g]; !ok {
			a.globals[g] = ib
		}
	}
	for k, ib := range b.natives {
		if _, ok := a.natives[k]; !ok {
			a.natives[k] = ib
		}
	}
	a.pc = append(append([]*Term(nil), a.pc[:base]...), e.TT.Or(condA, condB))
	if a.pc[len(a.pc)-1] == e.TT.True {
		a.pc = a.pc[:base]
	}
	return a, true
}

func (e *Engine) mergeObj(c *Term, oa, ob *Obj) (*Obj, bool) {
	if oa.Poison || ob.Poison {
		return nil, false
	}
	if oa.IsMap != ob.IsMap || (oa.Iter != nil) != (ob.Iter != nil) {
		return nil, false
	}
	if oa.Iter != nil {
		ia, ib := oa.Iter, ob.Iter
		if ia.isMap != ib.isMap || ia.pos != ib.pos || len(ia.keys) != len(ib.keys) || !sameValue(ia.str, ib.str) {
			return nil, false
		}
		return oa, true
	}
	if oa.IsMap {
		if len(oa.Keys) != len(ob.Keys) {
			// one side has extra (newest) entries: not mergeable in general
			return nil, false
		}
		keys := make([]Value, len(oa.Keys))
		vals := make([]Value, len(oa.Keys))
		for i := range oa.Keys {
			k, ok := e.mergeValue(c, ob.Keys[i], oa.Keys[i])
			if !ok {
				return nil, false
			}
			v, ok := e.mergeValue(c, ob.Vals[i], oa.Vals[i])
			if !ok {
				return nil, false
			}
			keys[i], vals[i] = k, v
		}
		return &Obj{IsMap: true, Keys: keys, Vals: vals}, true
	}
	v, ok := e.mergeValue(c, ob.Val, oa.Val)
	if !ok {
		return nil, false
	}
	return &Obj{Val: v}, true
}

// reachable returns the set of heap objects reachable in st from the roots
// that are live after a join with other (registers present on both sides).
func (e *Engine) reachable(st, other *State) map[int]bool {
	seen := map[int]bool{}
	var walk func(v Value)
	visitObj := func(id int) {
		if id < 0 || id >= len(st.heap) || seen[id] {
			return
		}
		seen[id] = true
		o := st.heap[id]
		walk(o.Val)
		for i := range o.Keys {
			walk(o.Keys[i])
			walk(o.Vals[i])
		}
		if o.Iter != nil {
			for i := range o.Iter.keys {
				walk(o.Iter.keys[i])
				walk(o.Iter.vals[i])
			}
		}
	}
	walk = func(v Value) {
		switch x := v.(type) {
		case PtrV:
			visitObj(x.Obj)
		case SliceV:
			visitObj(x.Arr)
		case MapV:
			visitObj(x.Obj)
		case IterV:
			visitObj(x.Obj)
		case StructV:
			for _, f := range x.F {
				walk(f)
			}
		case ArrayV:
			for _, f := range x.E {
				walk(f)
			}
		case TupleV:
			for _, f := range x.E {
				walk(f)
			}
		case IfaceV:
			walk(x.V)
		case FuncV:
			for _, f := range x.Bind {
				walk(f)
			}
		}
	}
	for i, f := range st.frames {
		of := other.frames[i]
		for k, v := range f.regs {
			if of != f {
				if _, ok := of.regs[k]; !ok {
					continue
				}
			}
			walk(v)
		}
		for _, b := range f.bind {
			walk(b)
		}
		for _, d := range f.defers {
			for _, a := range d.args {
				walk(a)
			}
		}
	}
	for _, id := range st.globals {
		visitObj(id)
	}
	return seen
}
