package sym

import (
	"fmt"
	"go/types"
	"math"
	"net/netip"
	"reflect"
	"regexp"
	"strings"
	"unicode"
	"unicode/utf8"

	"golang.org/x/tools/go/ssa"
)

// VerifPrefix is the name prefix of harness nondet functions.
const VerifPrefix = "verif"

func registerIntrinsics(e *Engine) {
	I := e.Intrinsics
	registerPSL(e)
	// ---- strings
	I["strings.Index"] = intrIndex
	I["internal/stringslite.Index"] = intrIndex
	I["strings.Contains"] = func(e *Engine, st *State, c ssa.CallInstruction, a []Value) []*State {
		idx := e.strIndex(a[0].(StrV), a[1].(StrV))
		e.setResult(st, c, e.TT.Cmp(OpSle, e.TT.Int(0), idx))
		return nil
	}
	I["strings.IndexByte"] = intrIndexByte
	I["internal/stringslite.IndexByte"] = intrIndexByte
	I["internal/bytealg.IndexByteString"] = intrIndexByte
	I["strings.LastIndex"] = func(e *Engine, st *State, c ssa.CallInstruction, a []Value) []*State {
		e.setResult(st, c, e.strLastIndex(a[0].(StrV), a[1].(StrV)))
		return nil
	}
	I["strings.LastIndexByte"] = func(e *Engine, st *State, c ssa.CallInstruction, a []Value) []*State {
		e.setResult(st, c, e.strLastIndex(a[0].(StrV), StrV{B: []*Term{a[1].(*Term)}}))
		return nil
	}
	I["strings.IndexAny"] = func(e *Engine, st *State, c ssa.CallInstruction, a []Value) []*State {
		s, chars := a[0].(StrV), a[1].(StrV)
		tt := e.TT
		res := tt.Int(-1)
		for i := len(s.B) - 1; i >= 0; i-- {
			var any []*Term
			for _, ch := range chars.B {
				any = append(any, tt.Eq(s.B[i], ch))
			}
			res = tt.Ite(tt.Or(any...), tt.Int(int64(i)), res)
		}
		e.asciiOnly(st, c, s, "strings.IndexAny")
		e.setResult(st, c, res)
		return nil
	}
	I["strings.HasPrefix"] = func(e *Engine, st *State, c ssa.CallInstruction, a []Value) []*State {
		s, p := a[0].(StrV), a[1].(StrV)
		if len(p.B) > len(s.B) {
			e.setResult(st, c, e.TT.False)
		} else {
			e.setResult(st, c, e.strEq(StrV{B: s.B[:len(p.B)]}, p))
		}
		return nil
	}
	I["strings.HasSuffix"] = func(e *Engine, st *State, c ssa.CallInstruction, a []Value) []*State {
		s, p := a[0].(StrV), a[1].(StrV)
		if len(p.B) > len(s.B) {
			e.setResult(st, c, e.TT.False)
		} else {
			e.setResult(st, c, e.strEq(StrV{B: s.B[len(s.B)-len(p.B):]}, p))
		}
		return nil
	}
	I["strings.ToLower"] = func(e *Engine, st *State, c ssa.CallInstruction, a []Value) []*State {
		s := a[0].(StrV)
		e.asciiOnly(st, c, s, "strings.ToLower")
		e.setResult(st, c, e.strLower(s))
		return nil
	}
	I["strings.ToUpper"] = func(e *Engine, st *State, c ssa.CallInstruction, a []Value) []*State {
		s := a[0].(StrV)
		e.asciiOnly(st, c, s, "strings.ToUpper")
		out := make([]*Term, len(s.B))
		for i, b := range s.B {
			out[i] = e.upperByte(b)
		}
		e.setResult(st, c, StrV{B: out})
		return nil
	}
	I["strings.EqualFold"] = func(e *Engine, st *State, c ssa.CallInstruction, a []Value) []*State {
		s, t := a[0].(StrV), a[1].(StrV)
		// against a concrete ASCII string without k/s, only ASCII bytes can fold to a match
		// (the only non-ASCII runes folding to ASCII letters are U+212A -> k and U+017F -> s)
		plain := func(x StrV) bool {
			cs, ok := StrConcrete(x)
			if !ok {
				return false
			}
			for i := 0; i < len(cs); i++ {
				if cs[i] >= 0x80 {
					return false
				}
			}
			return true
		}
		if !plain(t) || e.Ctx["latin1"] == nil {
			e.asciiOnly(st, c, s, "strings.EqualFold")
		}
		if !plain(s) || e.Ctx["latin1"] == nil {
			e.asciiOnly(st, c, t, "strings.EqualFold")
		}
		e.setResult(st, c, e.strEq(e.strLower(s), e.strLower(t)))
		return nil
	}
	I["strings.Compare"] = func(e *Engine, st *State, c ssa.CallInstruction, a []Value) []*State {
		s, t := a[0].(StrV), a[1].(StrV)
		tt := e.TT
		e.setResult(st, c, tt.Ite(e.strLess(s, t), tt.Int(-1), tt.Ite(e.strEq(s, t), tt.Int(0), tt.Int(1))))
		return nil
	}
	I["strings.TrimSpace"] = intrTrimSpace
	I["bytes.TrimSpace"] = func(e *Engine, st *State, c ssa.CallInstruction, a []Value) []*State {
		sl := a[0].(SliceV)
		if sl.LenT != nil {
			e.fail("bytes.TrimSpace on a symbolic-length slice")
		}
		var bs []*Term
		for _, v := range e.sliceElems(st, sl) {
			bs = append(bs, v.(*Term))
		}
		// reuse the string version and map the result back to a sub-slice
		tt := e.TT
		n := len(bs)
		sp := make([]*Term, n)
		for i, b := range bs {
			sp[i] = e.isSpaceASCII(b)
		}
		var out []*State
		emit := func(cond *Term, i, j int) {
			if cond == tt.False || !e.feasible(st, cond) {
				return
			}
			ch := e.Clone(st)
			ch.addPC(cond)
			if i == j {
				e.setResult(ch, c, SliceV{Arr: -1})
			} else {
				e.setResult(ch, c, SliceV{Arr: sl.Arr, Off: sl.Off + i, Len: j - i, Cap: sl.Cap - i})
			}
			out = append(out, ch)
		}
		var pre []*Term
		for i := 0; i <= n; i++ {
			// start == i: everything before i is blank (pre), byte i is not
			if i == n {
				emit(tt.And(pre...), 0, 0)
				break
			}
			if sp[i] != tt.True {
				startCond := append(append([]*Term(nil), pre...), tt.Not(sp[i]))
				var post []*Term
				for j := n; j > i; j-- {
					// end == j: everything from j on is blank (post), byte j-1 is not
					if sp[j-1] != tt.True {
						cs := append(append(append([]*Term(nil), startCond...), post...), tt.Not(sp[j-1]))
						emit(tt.And(cs...), i, j)
					}
					if sp[j-1] == tt.False {
						break
					}
					post = append(post, sp[j-1])
				}
			}
			if sp[i] == tt.False {
				break
			}
			pre = append(pre, sp[i])
		}
		st.done = true
		e.Stats.Forks += len(out)
		return out
	}
	I["strings.Split"] = func(e *Engine, st *State, c ssa.CallInstruction, a []Value) []*State {
		return e.strSplit(st, c, a[0].(StrV), a[1].(StrV), -1)
	}
	I["strings.SplitN"] = func(e *Engine, st *State, c ssa.CallInstruction, a []Value) []*State {
		n := a[2].(*Term)
		if n.Op != OpConst {
			e.fail("SplitN with symbolic n")
		}
		return e.strSplit(st, c, a[0].(StrV), a[1].(StrV), int(n.SignedVal()))
	}
	I["strings.ReplaceAll"] = func(e *Engine, st *State, c ssa.CallInstruction, a []Value) []*State {
		return e.strReplaceAll(st, c, a[0].(StrV), a[1].(StrV), a[2].(StrV))
	}
	I["strings.Count"] = func(e *Engine, st *State, c ssa.CallInstruction, a []Value) []*State {
		s, sub := a[0].(StrV), a[1].(StrV)
		if len(sub.B) != 1 {
			e.fail("strings.Count with multi-byte separator")
		}
		tt := e.TT
		cnt := tt.Int(0)
		for _, b := range s.B {
			cnt = tt.Bin(OpAdd, cnt, tt.Ite(tt.Eq(b, sub.B[0]), tt.Int(1), tt.Int(0)))
		}
		e.setResult(st, c, cnt)
		return nil
	}
	ident := func(e *Engine, st *State, c ssa.CallInstruction, a []Value) []*State { e.setResult(st, c, a[0]); return nil }
	I["internal/stringslite.Clone"] = ident
	I["strings.Clone"] = ident
	// ---- strings.Builder
	I["(*strings.Builder).WriteByte"] = func(e *Engine, st *State, c ssa.CallInstruction, a []Value) []*State {
		e.builderAppend(st, a[0].(PtrV), []*Term{a[1].(*Term)})
		e.setResult(st, c, IfaceV{})
		return nil
	}
	I["(*strings.Builder).WriteString"] = func(e *Engine, st *State, c ssa.CallInstruction, a []Value) []*State {
		s := a[1].(StrV)
		e.builderAppend(st, a[0].(PtrV), s.B)
		e.setResult(st, c, TupleV{E: []Value{e.TT.Int(int64(len(s.B))), IfaceV{}}})
		return nil
	}
	I["(*strings.Builder).Write"] = func(e *Engine, st *State, c ssa.CallInstruction, a []Value) []*State {
		sl := a[1].(SliceV)
		if sl.LenT != nil {
			e.fail("Builder.Write of a symbolic-length slice")
		}
		var bs []*Term
		for _, v := range e.sliceElems(st, sl) {
			bs = append(bs, v.(*Term))
		}
		e.builderAppend(st, a[0].(PtrV), bs)
		e.setResult(st, c, TupleV{E: []Value{e.TT.Int(int64(len(bs))), IfaceV{}}})
		return nil
	}
	I["(*strings.Builder).WriteRune"] = func(e *Engine, st *State, c ssa.CallInstruction, a []Value) []*State {
		r := a[1].(*Term)
		if s, ok := valueSet(r, 0); !ok || s[2] != 0 || s[3] != 0 {
			e.fail("Builder.WriteRune with possibly non-ASCII rune")
		}
		e.builderAppend(st, a[0].(PtrV), []*Term{e.TT.Extract(r, 7, 0)})
		e.setResult(st, c, TupleV{E: []Value{e.TT.Int(1), IfaceV{}}})
		return nil
	}
	I["(*strings.Builder).String"] = func(e *Engine, st *State, c ssa.CallInstruction, a []Value) []*State {
		e.setResult(st, c, StrV{B: e.builderBytes(st, a[0].(PtrV))})
		return nil
	}
	I["(*strings.Builder).Len"] = func(e *Engine, st *State, c ssa.CallInstruction, a []Value) []*State {
		e.setResult(st, c, e.TT.Int(int64(len(e.builderBytes(st, a[0].(PtrV))))))
		return nil
	}
	I["(*strings.Builder).Reset"] = func(e *Engine, st *State, c ssa.CallInstruction, a []Value) []*State {
		p := a[0].(PtrV)
		sv := e.load(st, p).(StructV)
		f := append([]Value(nil), sv.F...)
		f[1] = SliceV{Arr: -1}
		e.store(st, p, StructV{F: f})
		return nil
	}
	I["(*strings.Builder).Grow"] = func(e *Engine, st *State, c ssa.CallInstruction, a []Value) []*State { return nil }
	// ---- strings.Replacer (single-byte olds only)
	I["strings.NewReplacer"] = func(e *Engine, st *State, c ssa.CallInstruction, a []Value) []*State {
		sl := a[0].(SliceV)
		var pairs []string
		for _, v := range e.sliceElems(st, sl) {
			s, ok := StrConcrete(v.(StrV))
			if !ok {
				e.fail("NewReplacer with symbolic argument")
			}
			pairs = append(pairs, s)
		}
		for i := 0; i < len(pairs); i += 2 {
			if len(pairs[i]) != 1 {
				e.fail("NewReplacer: only single-byte old strings are modelled (got %q)", pairs[i])
			}
		}
		e.setResult(st, c, OpaqueV{Kind: "replacer", Native: &replacerModel{pairs}})
		return nil
	}
	I["(*strings.Replacer).Replace"] = func(e *Engine, st *State, c ssa.CallInstruction, a []Value) []*State {
		r := a[0].(OpaqueV).Native.(*replacerModel)
		return e.replacerReplace(st, c, r, a[1].(StrV))
	}
	// ---- bytes
	I["bytes.IndexByte"] = func(e *Engine, st *State, c ssa.CallInstruction, a []Value) []*State {
		sl := a[0].(SliceV)
		if sl.LenT != nil {
			e.fail("bytes.IndexByte on symbolic-length slice")
		}
		var bs []*Term
		for _, v := range e.sliceElems(st, sl) {
			bs = append(bs, v.(*Term))
		}
		e.setResult(st, c, e.strIndex(StrV{B: bs}, StrV{B: []*Term{a[1].(*Term)}}))
		return nil
	}
	// ---- os.File: the engine's file model (content, offset, closed); full reads only
	I["(*os.File).Seek"] = func(e *Engine, st *State, c ssa.CallInstruction, a []Value) []*State {
		p := a[0].(PtrV)
		f := e.load(st, PtrV{Obj: p.Obj, Path: []PathEl{{I: 2}}})
		if f == Value(e.TT.True) {
			e.setResult(st, c, TupleV{E: []Value{e.TT.Int(0), e.closedFileError(st)}})
			return nil
		}
		whence := a[2].(*Term)
		if whence.Op != OpConst || whence.Val != 0 {
			e.fail("os.File.Seek: only io.SeekStart is modelled")
		}
		e.store(st, PtrV{Obj: p.Obj, Path: []PathEl{{I: 1}}}, a[1])
		e.setResult(st, c, TupleV{E: []Value{a[1], IfaceV{}}})
		return nil
	}
	var fileRead Intrinsic
	_ = fileRead
	fileRead = func(e *Engine, st *State, c ssa.CallInstruction, a []Value) []*State {
		p := a[0].(PtrV)
		if e.load(st, PtrV{Obj: p.Obj, Path: []PathEl{{I: 2}}}) == Value(e.TT.True) {
			e.setResult(st, c, TupleV{E: []Value{e.TT.Int(0), e.closedFileError(st)}})
			return nil
		}
		content := e.load(st, PtrV{Obj: p.Obj, Path: []PathEl{{I: 0}}}).(StrV)
		offT := e.load(st, PtrV{Obj: p.Obj, Path: []PathEl{{I: 1}}}).(*Term)
		if offT.Op != OpConst {
			// merged states with different offsets: split on the offset again
			leaves, ok := ConstLeaves(offT)
			if !ok {
				e.fail("os.File.Read at a symbolic offset")
			}
			var out []*State
			for _, v := range leaves {
				k := e.TT.Const(64, v)
				cond := e.TT.Eq(offT, k)
				if !e.feasible(st, cond) {
					continue
				}
				ch := e.Clone(st)
				e.addHardPC(ch, cond)
				e.store(ch, PtrV{Obj: p.Obj, Path: []PathEl{{I: 1}}}, k)
				if sub := fileRead(e, ch, c, a); sub != nil {
					out = append(out, sub...)
				} else {
					out = append(out, ch)
				}
			}
			st.done = true
			return out
		}
		off := int(offT.SignedVal())
		b := a[1].(SliceV)
		if off >= len(content.B) || off < 0 {
			eof := e.load(st, e.globalPtrByName(st, "io", "EOF"))
			e.setResult(st, c, TupleV{E: []Value{e.TT.Int(0), eof}})
			return nil
		}
		n := len(content.B) - off
		if b.Len < n {
			n = b.Len
		}
		finish := func(s2 *State, k int) {
			for i := 0; i < k; i++ {
				e.store(s2, PtrV{Obj: b.Arr, Path: []PathEl{{I: b.Off + i}}}, content.B[off+i])
			}
			e.store(s2, PtrV{Obj: p.Obj, Path: []PathEl{{I: 1}}}, e.TT.Int(int64(off+k)))
			e.setResult(s2, c, TupleV{E: []Value{e.TT.Int(int64(k)), IfaceV{}}})
		}
		short := e.load(st, PtrV{Obj: p.Obj, Path: []PathEl{{I: 3}}}) == Value(e.TT.True)
		if short && n >= 2 {
			// the environment may deliver fewer bytes than asked for: one byte, or all of them
			sel := e.NewInput(e.fresh("shortread"), 0, nil)
			one := e.Clone(st)
			e.addHardPC(one, sel)
			finish(one, 1)
			e.addHardPC(st, e.TT.Not(sel))
			finish(st, n)
			e.Stats.Forks++
			return []*State{one, st}
		}
		finish(st, n)
		return nil
	}
	I["(*os.File).Read"] = fileRead
	I["(*os.File).Close"] = func(e *Engine, st *State, c ssa.CallInstruction, a []Value) []*State {
		p := a[0].(PtrV)
		e.store(st, PtrV{Obj: p.Obj, Path: []PathEl{{I: 2}}}, e.TT.True)
		e.setResult(st, c, IfaceV{})
		return nil
	}
	// ---- math: concrete floats only
	I["math.Min"] = func(e *Engine, st *State, c ssa.CallInstruction, a []Value) []*State {
		e.setResult(st, c, FloatV{math.Min(a[0].(FloatV).F, a[1].(FloatV).F)})
		return nil
	}
	I["math.Max"] = func(e *Engine, st *State, c ssa.CallInstruction, a []Value) []*State {
		e.setResult(st, c, FloatV{math.Max(a[0].(FloatV).F, a[1].(FloatV).F)})
		return nil
	}
	// ---- math/bits population count (the 32-bit version indexes a table; use SWAR terms instead)
	pop := func(w int) Intrinsic {
		return func(e *Engine, st *State, c ssa.CallInstruction, a []Value) []*State {
			tt := e.TT
			x := tt.Zext(a[0].(*Term), 64)
			k := func(v uint64) *Term { return tt.Const(64, v) }
			sh := func(t *Term, n uint64) *Term { return tt.Bin(OpLshr, t, k(n)) }
			and := func(a, b *Term) *Term { return tt.Bin(OpBAnd, a, b) }
			add := func(a, b *Term) *Term { return tt.Bin(OpAdd, a, b) }
			const m0, m1, m2 = 0x5555555555555555, 0x3333333333333333, 0x0f0f0f0f0f0f0f0f
			x = add(and(sh(x, 1), k(m0)), and(x, k(m0)))
			x = add(and(sh(x, 2), k(m1)), and(x, k(m1)))
			x = and(add(sh(x, 4), x), k(m2))
			x = add(x, sh(x, 8))
			x = add(x, sh(x, 16))
			x = add(x, sh(x, 32))
			e.setResult(st, c, and(x, k(127)))
			return nil
		}
	}
	I["math/bits.OnesCount64"] = pop(64)
	I["math/bits.OnesCount32"] = pop(32)
	I["math/bits.OnesCount16"] = pop(16)
	I["math/bits.OnesCount8"] = pop(8)
	I["math/bits.OnesCount"] = pop(64)
	// ---- sync: sequential no-ops
	for _, n := range []string{"(*sync.Mutex).Lock", "(*sync.Mutex).Unlock", "(*sync.RWMutex).Lock", "(*sync.RWMutex).Unlock",
		"(*sync.RWMutex).RLock", "(*sync.RWMutex).RUnlock"} {
		name := n
		I[name] = func(e *Engine, st *State, c ssa.CallInstruction, a []Value) []*State {
			kind := map[string]string{"Lock": "lock", "Unlock": "unlock", "RLock": "rlock", "RUnlock": "runlock"}[name[strings.LastIndex(name, ".")+1:]]
			e.RecordSync(st, kind, a[0])
			return nil
		}
	}
	// ---- logging / formatting: opaque
	noop := func(e *Engine, st *State, c ssa.CallInstruction, a []Value) []*State {
		if c != nil {
			if v, ok := c.(ssa.Value); ok {
				if tup, isT := v.Type().(*types.Tuple); isT {
					if tup.Len() > 0 {
						e.setResult(st, c, e.zero(tup))
					}
				} else {
					e.setResult(st, c, e.zero(v.Type()))
				}
			}
		}
		return nil
	}
	for _, n := range []string{"log/slog.Error", "log/slog.Info", "log/slog.Debug", "log/slog.Warn",
		"github.com/AdguardTeam/golibs/log.Error", "github.com/AdguardTeam/golibs/log.Debug", "github.com/AdguardTeam/golibs/log.Info",
		"github.com/AdguardTeam/golibs/log.Printf", "github.com/AdguardTeam/golibs/log.Tracef"} {
		I[n] = noop
	}
	I["fmt.Errorf"] = func(e *Engine, st *State, c ssa.CallInstruction, a []Value) []*State {
		e.setResult(st, c, e.newError(st, "fmt.Errorf:"+describe(a[0])))
		return nil
	}
	// errors.Is on the error values of the model: identity with the target (fmt.Errorf is opaque in
	// the engine, so wrapped chains do not exist; an opaque error matches nothing but itself)
	I["errors.Is"] = func(e *Engine, st *State, c ssa.CallInstruction, a []Value) []*State {
		res := e.valueEq(a[0], a[1])
		if inner, ok := e.unwrapModelError(st, a[0]); ok {
			res = e.TT.Or(res, e.valueEq(inner, a[1]))
		}
		e.setResult(st, c, res)
		return nil
	}
	// errors.As on the error values of the model: the dynamic type of the error (or of what the model's
	// one wrapper, *fs.PathError, wraps) is the element type of the target
	I["errors.As"] = func(e *Engine, st *State, c ssa.CallInstruction, a []Value) []*State {
		tgt, ok := a[1].(IfaceV)
		if !ok || tgt.T == nil {
			e.fail("errors.As with a nil target")
		}
		tp, ok := tgt.T.(*types.Pointer)
		if !ok {
			e.fail("errors.As target is not a pointer")
		}
		cur := a[0]
		for depth := 0; depth < 3; depth++ {
			iv, ok := cur.(IfaceV)
			if !ok || iv.T == nil {
				break
			}
			if types.Identical(iv.T, tp.Elem()) {
				e.store(st, tgt.V.(PtrV), iv.V)
				e.setResult(st, c, e.TT.True)
				return nil
			}
			if _, isIface := tp.Elem().Underlying().(*types.Interface); isIface {
				e.fail("errors.As with an interface target")
			}
			next, ok := e.unwrapModelError(st, cur)
			if !ok {
				break
			}
			cur = next
		}
		e.setResult(st, c, e.TT.False)
		return nil
	}
	I["errors.New"] = func(e *Engine, st *State, c ssa.CallInstruction, a []Value) []*State {
		e.setResult(st, c, e.newError(st, "errors.New:"+describe(a[0])))
		return nil
	}
	I["fmt.Sprintf"] = func(e *Engine, st *State, c ssa.CallInstruction, a []Value) []*State {
		e.setResult(st, c, e.ConcreteStr("<fmt.Sprintf>"))
		return nil
	}
	// ---- net/netip text parsing: native on concrete input
	I["net/netip.ParseAddr"] = func(e *Engine, st *State, c ssa.CallInstruction, a []Value) []*State {
		s := a[0].(StrV)
		addrT := e.lookupNamed("net/netip", "Addr")
		if cs, ok := StrConcrete(s); ok {
			ip, err := netip.ParseAddr(cs)
			if err != nil {
				e.setResult(st, c, TupleV{E: []Value{e.zero(addrT), e.newError(st, "netip.ParseAddr: "+err.Error())}})
				return nil
			}
			v := e.FromNative(st, reflect.ValueOf(&ip).Elem(), addrT)
			e.setResult(st, c, TupleV{E: []Value{v, IfaceV{}}})
			return nil
		}
		// symbolic input: only decided when no byte can be a digit or a colon (then it cannot be an address)
		possible := len(s.B) > 0
		hasColon, hasDigit := false, false
		for _, b := range s.B {
			vs, ok := valueSet(b, 0)
			if !ok {
				hasColon, hasDigit = true, true
				break
			}
			if vs.Has(':') {
				hasColon = true
			}
			for d := byte('0'); d <= '9'; d++ {
				if vs.Has(d) {
					hasDigit = true
				}
			}
		}
		if possible && (hasColon || hasDigit) {
			return parseAddrContract(e, st, c, a)
		}
		e.setResult(st, c, TupleV{E: []Value{e.zero(addrT), e.newError(st, "netip.ParseAddr: symbolic non-address")}})
		return nil
	}
	// ---- regexp with concrete patterns (native objects)
	I["regexp.MustCompile"] = func(e *Engine, st *State, c ssa.CallInstruction, a []Value) []*State {
		p, ok := StrConcrete(a[0].(StrV))
		if !ok {
			e.fail("regexp.MustCompile with symbolic pattern")
		}
		e.setResult(st, c, OpaqueV{Kind: "regexp", Native: regexp.MustCompile(p)})
		return nil
	}
	I["regexp.QuoteMeta"] = func(e *Engine, st *State, c ssa.CallInstruction, a []Value) []*State {
		p, ok := StrConcrete(a[0].(StrV))
		if !ok {
			e.fail("regexp.QuoteMeta with symbolic argument")
		}
		e.setResult(st, c, e.ConcreteStr(regexp.QuoteMeta(p)))
		return nil
	}
	I["regexp.Compile"] = func(e *Engine, st *State, c ssa.CallInstruction, a []Value) []*State {
		p, ok := StrConcrete(a[0].(StrV))
		if !ok {
			if h, ok := e.Ctx["regexpCompileSym"].(Intrinsic); ok {
				return h(e, st, c, a)
			}
			e.fail("regexp.Compile with symbolic pattern")
		}
		re, err := regexp.Compile(p)
		if err != nil {
			e.setResult(st, c, TupleV{E: []Value{OpaqueV{Kind: "regexp", Native: nil}, e.newError(st, "regexp: "+err.Error())}})
		} else {
			e.setResult(st, c, TupleV{E: []Value{OpaqueV{Kind: "regexp", Native: re}, IfaceV{}}})
		}
		return nil
	}
	I["(*regexp.Regexp).MatchString"] = func(e *Engine, st *State, c ssa.CallInstruction, a []Value) []*State {
		o := a[0].(OpaqueV)
		re, _ := o.Native.(*regexp.Regexp)
		if re == nil {
			e.reportPanic(st, c.Pos(), "nil *regexp.Regexp", e.TT.True)
			st.done = true
			return nil
		}
		s := a[1].(StrV)
		if cs, ok := StrConcrete(s); ok {
			e.setResult(st, c, e.TT.Bool(re.MatchString(cs)))
			return nil
		}
		e.asciiOnly(st, c, s, "regexp.MatchString")
		t, err := e.EncodeRegexp(re.String(), s.B)
		if err != nil {
			e.fail("regexp encoding of %q: %v", re.String(), err)
		}
		e.setResult(st, c, t)
		return nil
	}
	I["(*regexp.Regexp).ReplaceAllString"] = func(e *Engine, st *State, c ssa.CallInstruction, a []Value) []*State {
		re := a[0].(OpaqueV).Native.(*regexp.Regexp)
		s, ok1 := StrConcrete(a[1].(StrV))
		r, ok2 := StrConcrete(a[2].(StrV))
		if ok1 && ok2 {
			e.setResult(st, c, e.ConcreteStr(re.ReplaceAllString(s, r)))
			return nil
		}
		// a purely literal expression with a template that expands to itself is a string replacement
		if lit, complete := re.LiteralPrefix(); ok2 && complete && lit != "" && re.ReplaceAllString(lit, r) == r {
			return e.strReplaceAll(st, c, a[1].(StrV), e.ConcreteStr(lit), e.ConcreteStr(r))
		}
		e.cutOutside(st, "regexp.ReplaceAllString on a symbolic string ("+re.String()+")")
		return nil
	}
	I["(*regexp.Regexp).Split"] = func(e *Engine, st *State, c ssa.CallInstruction, a []Value) []*State {
		re := a[0].(OpaqueV).Native.(*regexp.Regexp)
		s, ok := StrConcrete(a[1].(StrV))
		n := a[2].(*Term)
		if !ok || n.Op != OpConst {
			e.cutOutside(st, "regexp.Split on a symbolic string ("+re.String()+")")
			return nil
		}
		parts := re.Split(s, int(n.SignedVal()))
		el := make([]Value, len(parts))
		for i, p := range parts {
			el[i] = e.ConcreteStr(p)
		}
		e.setResult(st, c, e.newSlice(st, el, len(el), StrV{}))
		return nil
	}
}

type replacerModel struct{ pairs []string }

// asciiOnly records that the claim is restricted to ASCII bytes of s.
func (e *Engine) asciiOnly(st *State, c ssa.CallInstruction, s StrV, what string) {
	tt := e.TT
	for _, b := range s.B {
		if vs, ok := valueSet(b, 0); ok && vs[2] == 0 && vs[3] == 0 {
			continue
		}
		viol := tt.Cmp(OpUle, tt.Const(8, 0x80), b)
		if viol == tt.False {
			continue
		}
		if e.feasible(st, viol) {
			e.addEvent(Event{Kind: "unsupported", Label: what + " on possibly non-ASCII symbolic byte"})
			st.addPC(tt.Not(viol))
		}
	}
}

func (e *Engine) lowerByte(b *Term) *Term {
	tt := e.TT
	if b.Op == OpConst {
		v := b.Val
		if v >= 'A' && v <= 'Z' {
			v += 32
		}
		return tt.Const(8, v)
	}
	isUp := tt.And(tt.Cmp(OpUle, tt.Const(8, 'A'), b), tt.Cmp(OpUle, b, tt.Const(8, 'Z')))
	return tt.Ite(isUp, tt.Bin(OpAdd, b, tt.Const(8, 32)), b)
}

func (e *Engine) upperByte(b *Term) *Term {
	tt := e.TT
	if b.Op == OpConst {
		v := b.Val
		if v >= 'a' && v <= 'z' {
			v -= 32
		}
		return tt.Const(8, v)
	}
	isLo := tt.And(tt.Cmp(OpUle, tt.Const(8, 'a'), b), tt.Cmp(OpUle, b, tt.Const(8, 'z')))
	return tt.Ite(isLo, tt.Bin(OpSub, b, tt.Const(8, 32)), b)
}

func (e *Engine) strLower(s StrV) StrV {
	out := make([]*Term, len(s.B))
	for i, b := range s.B {
		out[i] = e.lowerByte(b)
	}
	return StrV{B: out}
}

// matchAt: Bool term for s[p:p+len(sub)] == sub.
func (e *Engine) matchAt(s, sub StrV, p int) *Term {
	if p+len(sub.B) > len(s.B) {
		return e.TT.False
	}
	return e.strEq(StrV{B: s.B[p : p+len(sub.B)]}, sub)
}

// strIndex: first index of sub in s as an ite-chain (−1 if absent).
func (e *Engine) strIndex(s, sub StrV) *Term {
	tt := e.TT
	res := tt.Int(-1)
	for p := len(s.B) - len(sub.B); p >= 0; p-- {
		res = tt.Ite(e.matchAt(s, sub, p), tt.Int(int64(p)), res)
	}
	return res
}

func (e *Engine) strLastIndex(s, sub StrV) *Term {
	tt := e.TT
	res := tt.Int(-1)
	for p := 0; p+len(sub.B) <= len(s.B); p++ {
		res = tt.Ite(e.matchAt(s, sub, p), tt.Int(int64(p)), res)
	}
	return res
}

func intrIndex(e *Engine, st *State, c ssa.CallInstruction, a []Value) []*State {
	e.setResult(st, c, e.strIndex(a[0].(StrV), a[1].(StrV)))
	return nil
}

func intrIndexByte(e *Engine, st *State, c ssa.CallInstruction, a []Value) []*State {
	e.setResult(st, c, e.strIndex(a[0].(StrV), StrV{B: []*Term{a[1].(*Term)}}))
	return nil
}

func (e *Engine) isSpaceASCII(b *Term) *Term {
	tt := e.TT
	return tt.Or(tt.Eq(b, tt.Const(8, ' ')), tt.Eq(b, tt.Const(8, '\t')), tt.Eq(b, tt.Const(8, '\n')),
		tt.Eq(b, tt.Const(8, '\v')), tt.Eq(b, tt.Const(8, '\f')), tt.Eq(b, tt.Const(8, '\r')))
}

// intrTrimSpace forks over the feasible (start,end) pairs.
func intrTrimSpace(e *Engine, st *State, c ssa.CallInstruction, a []Value) []*State {
	tt := e.TT
	s := a[0].(StrV)
	n := len(s.B)
	sp := make([]*Term, n)
	allConst := true
	for i := 0; i < n; {
		b := s.B[i]
		if b.Op == OpConst && b.Val >= 0x80 {
			// a concrete non-ASCII rune: decoded natively when all of its bytes are concrete
			// (strings.TrimSpace trims Unicode white space; its ASCII loop is only a fast path)
			var buf []byte
			for k := i; k < n && k < i+4 && s.B[k].Op == OpConst; k++ {
				buf = append(buf, byte(s.B[k].Val))
			}
			r, w := utf8.DecodeRune(buf)
			if r == utf8.RuneError && w <= 1 && len(buf) < 4 && i+len(buf) < n {
				// an incomplete sequence followed by a symbolic byte: not decided here
				e.asciiOnly(st, c, StrV{B: s.B[i : i+1]}, "strings.TrimSpace")
				w = 1
			}
			v := tt.False
			if r != utf8.RuneError && unicode.IsSpace(r) {
				v = tt.True
			}
			for k := 0; k < w; k++ {
				sp[i+k] = v
			}
			i += w
			continue
		}
		e.asciiOnly(st, c, StrV{B: s.B[i : i+1]}, "strings.TrimSpace")
		sp[i] = e.isSpaceASCII(b)
		if sp[i].Op != OpConst {
			allConst = false
		}
		i++
	}
	if allConst {
		i, j := 0, n
		for i < n && sp[i] == tt.True {
			i++
		}
		for j > i && sp[j-1] == tt.True {
			j--
		}
		e.setResult(st, c, StrV{B: s.B[i:j]})
		return nil
	}
	var out []*State
	// all blank
	for i := 0; i <= n; i++ {
		// start = i: sp[0..i-1] all true, sp[i] false (or i==n)
		conds := []*Term{}
		for k := 0; k < i; k++ {
			conds = append(conds, sp[k])
		}
		if i == n {
			cond := tt.And(conds...)
			if e.feasible(st, cond) {
				ch := e.Clone(st)
				ch.addPC(cond)
				e.setResult(ch, c, StrV{})
				out = append(out, ch)
			}
			continue
		}
		conds = append(conds, tt.Not(sp[i]))
		pre := tt.And(conds...)
		if pre == tt.False || !e.feasible(st, pre) {
			continue
		}
		for j := n; j > i; j-- {
			// end = j: sp[j..n-1] all true, sp[j-1] false
			c2 := []*Term{pre}
			for k := j; k < n; k++ {
				c2 = append(c2, sp[k])
			}
			c2 = append(c2, tt.Not(sp[j-1]))
			cond := tt.And(c2...)
			if cond == tt.False || !e.feasible(st, cond) {
				continue
			}
			ch := e.Clone(st)
			ch.addPC(cond)
			e.setResult(ch, c, StrV{B: s.B[i:j]})
			out = append(out, ch)
		}
	}
	st.done = true
	e.Stats.Forks += len(out)
	return out
}

type scanResult struct {
	st     *State
	starts []int
}

// scanMatches enumerates the feasible leftmost non-overlapping match patterns of old in s.
// limit < 0: unlimited number of matches.
func (e *Engine) scanMatches(st *State, s, old StrV, limit int) []scanResult {
	if len(old.B) == 0 {
		e.fail("scanMatches with empty pattern")
	}
	tt := e.TT
	var out []scanResult
	var rec func(cur *State, p int, starts []int)
	rec = func(cur *State, p int, starts []int) {
		if p+len(old.B) > len(s.B) || (limit >= 0 && len(starts) >= limit) {
			out = append(out, scanResult{cur, append([]int(nil), starts...)})
			return
		}
		m := e.matchAt(s, old, p)
		if m.Op == OpConst {
			if m.Val != 0 {
				rec(cur, p+len(old.B), append(starts, p))
			} else {
				rec(cur, p+1, starts)
			}
			return
		}
		ft := e.feasible(cur, m)
		ff := e.feasible(cur, tt.Not(m))
		switch {
		case ft && ff:
			other := e.Clone(cur)
			cur.addPC(m)
			other.addPC(tt.Not(m))
			e.Stats.Forks++
			rec(cur, p+len(old.B), append(append([]int(nil), starts...), p))
			rec(other, p+1, starts)
		case ft:
			rec(cur, p+len(old.B), append(starts, p))
		case ff:
			rec(cur, p+1, starts)
		}
	}
	rec(st, 0, nil)
	return out
}

func (e *Engine) strSplit(st *State, c ssa.CallInstruction, s, sep StrV, n int) []*State {
	if n == 0 {
		e.setResult(st, c, SliceV{Arr: -1})
		return nil
	}
	if len(sep.B) == 0 {
		e.fail("strings.Split with empty separator")
	}
	limit := -1
	if n > 0 {
		limit = n - 1
	}
	rs := e.scanMatches(st, s, sep, limit)
	if len(rs) == 0 {
		st.done = true // infeasible state
		return nil
	}
	var out []*State
	for _, r := range rs {
		var parts []Value
		prev := 0
		for _, p := range r.starts {
			parts = append(parts, StrV{B: s.B[prev:p]})
			prev = p + len(sep.B)
		}
		parts = append(parts, StrV{B: s.B[prev:]})
		e.setResult(r.st, c, e.newSlice(r.st, parts, len(parts), StrV{}))
		out = append(out, r.st)
	}
	if len(out) == 1 && out[0] == st {
		return nil
	}
	return out
}

func (e *Engine) strReplaceAll(st *State, c ssa.CallInstruction, s, old, nw StrV) []*State {
	if len(old.B) == 0 {
		e.fail("strings.ReplaceAll with empty old")
	}
	rs := e.scanMatches(st, s, old, -1)
	if len(rs) == 0 {
		st.done = true // infeasible state
		return nil
	}
	var out []*State
	for _, r := range rs {
		var b []*Term
		prev := 0
		for _, p := range r.starts {
			b = append(b, s.B[prev:p]...)
			b = append(b, nw.B...)
			prev = p + len(old.B)
		}
		b = append(b, s.B[prev:]...)
		e.setResult(r.st, c, StrV{B: b})
		out = append(out, r.st)
	}
	if len(out) == 1 && out[0] == st {
		return nil
	}
	return out
}

// replacerReplace models a byte replacer: each position is replaced by the new
// string of the first pair whose (single-byte) old equals it.
func (e *Engine) replacerReplace(st *State, c ssa.CallInstruction, r *replacerModel, s StrV) []*State {
	tt := e.TT
	type res struct {
		st *State
		b  []*Term
	}
	var out []res
	var rec func(cur *State, p int, acc []*Term)
	rec = func(cur *State, p int, acc []*Term) {
		if p == len(s.B) {
			out = append(out, res{cur, acc})
			return
		}
		b := s.B[p]
		var none []*Term
		remaining := cur
		for i := 0; i < len(r.pairs); i += 2 {
			m := tt.Eq(b, tt.Const(8, uint64(r.pairs[i][0])))
			if m == tt.False {
				continue
			}
			if m == tt.True {
				nb := append(append([]*Term(nil), acc...), e.ConcreteStr(r.pairs[i+1]).B...)
				rec(remaining, p+1, nb)
				return
			}
			cond := tt.And(append([]*Term{m}, none...)...)
			if e.feasible(remaining, cond) {
				ch := e.Clone(remaining)
				ch.addPC(cond)
				e.Stats.Forks++
				nb := append(append([]*Term(nil), acc...), e.ConcreteStr(r.pairs[i+1]).B...)
				rec(ch, p+1, nb)
			}
			none = append(none, tt.Not(m))
		}
		cond := tt.And(none...)
		if cond == tt.True {
			rec(remaining, p+1, append(append([]*Term(nil), acc...), b))
			return
		}
		if e.feasible(remaining, cond) {
			remaining.addPC(cond)
			rec(remaining, p+1, append(append([]*Term(nil), acc...), b))
		} else {
			remaining.done = true
		}
	}
	rec(st, 0, nil)
	var states []*State
	for _, r := range out {
		e.setResult(r.st, c, StrV{B: r.b})
		states = append(states, r.st)
	}
	if len(states) == 1 && states[0] == st {
		return nil
	}
	if len(states) == 0 {
		st.done = true
		return nil
	}
	return states
}

// ---------------------------------------------------------------- strings.Builder model

func (e *Engine) builderBytes(st *State, p PtrV) []*Term {
	sv := e.load(st, p).(StructV)
	buf := sv.F[1].(SliceV)
	var out []*Term
	for _, v := range e.sliceElems(st, buf) {
		out = append(out, v.(*Term))
	}
	return out
}

func (e *Engine) builderAppend(st *State, p PtrV, bs []*Term) {
	old := e.builderBytes(st, p)
	el := make([]Value, 0, len(old)+len(bs))
	for _, b := range old {
		el = append(el, b)
	}
	for _, b := range bs {
		el = append(el, b)
	}
	sv := e.load(st, p).(StructV)
	f := append([]Value(nil), sv.F...)
	f[1] = e.newSlice(st, el, len(el), e.TT.Const(8, 0))
	e.store(st, p, StructV{F: f})
}

// ---------------------------------------------------------------- errors

func (e *Engine) lookupNamed(pkgPath, name string) types.Type {
	k := pkgPath + "." + name
	if t, ok := e.typeCache[k]; ok {
		return t
	}
	for _, p := range e.Prog.AllPackages() {
		if p.Pkg.Path() == pkgPath {
			if m := p.Pkg.Scope().Lookup(name); m != nil {
				e.typeCache[k] = m.Type()
				return m.Type()
			}
		}
	}
	e.fail("type %s not found in program", k)
	return nil
}

// newError returns a non-nil error value (*errors.errorString).
func (e *Engine) newError(st *State, msg string) Value {
	t := e.lookupNamed("errors", "errorString")
	id := e.alloc(st, StructV{F: []Value{e.ConcreteStr(msg)}})
	return IfaceV{T: types.NewPointer(t), V: PtrV{Obj: id}}
}

func init() { _ = fmt.Sprint; _ = strings.Contains }

// cutOutside abandons a path that leaves what the engine models; it is counted
// and listed in the evidence as outside the claim (not an error, not a verdict).
func (e *Engine) cutOutside(st *State, why string) {
	e.addEvent(Event{Kind: "outside", Label: why})
	e.Outside[why]++
	st.done = true
}

// closedFileError is what the file model returns for an operation on a closed file: like the
// real library a *fs.PathError whose Err is os.ErrClosed (when that global is registered),
// otherwise an opaque error.
func (e *Engine) closedFileError(st *State) Value {
	if _, ok := e.NativeGlob["os.ErrClosed"]; ok {
		inner := e.load(st, e.globalPtrByName(st, "os", "ErrClosed"))
		if t := e.lookupNamedOpt("io/fs", "PathError"); t != nil {
			id := e.alloc(st, StructV{F: []Value{e.ConcreteStr("read"), e.ConcreteStr("verif-file"), inner}})
			return IfaceV{T: types.NewPointer(t), V: PtrV{Obj: id}}
		}
		return inner
	}
	return e.newError(st, "file already closed")
}

// lookupNamedOpt is lookupNamed without failing when the package or type is not loaded.
func (e *Engine) lookupNamedOpt(pkg, name string) types.Type {
	for _, p := range e.Prog.AllPackages() {
		if p.Pkg.Path() == pkg {
			if o := p.Pkg.Scope().Lookup(name); o != nil {
				return o.Type()
			}
		}
	}
	return nil
}

// unwrapModelError: the one wrapper the model produces (*fs.PathError) unwraps to its Err field.
func (e *Engine) unwrapModelError(st *State, v Value) (Value, bool) {
	iv, ok := v.(IfaceV)
	if !ok || iv.T == nil {
		return nil, false
	}
	pt, ok := iv.T.(*types.Pointer)
	if !ok {
		return nil, false
	}
	if n, ok := pt.Elem().(*types.Named); ok && n.Obj().Name() == "PathError" && n.Obj().Pkg() != nil && n.Obj().Pkg().Path() == "io/fs" {
		p := iv.V.(PtrV)
		return e.load(st, PtrV{Obj: p.Obj, Path: []PathEl{{I: 2}}}), true
	}
	return nil, false
}
