package sym

import (
	"bufio"
	"fmt"
	"io"
	"os"
	"os/exec"
	"strconv"
	"strings"
	"time"
)

// Res is a solver verdict.
type Res int

const (
	Unsat Res = iota
	Sat
	Unknown
)

func (r Res) String() string { return [...]string{"unsat", "sat", "unknown"}[r] }

// SolverStats are accumulated per solver process.
type SolverStats struct {
	Queries, Sat, Unsat, Unknown int
	Seconds                      float64
	Errors                       []string
}

// Solver drives one persistent SMT solver process (z3 -in or cvc5 --incremental).
type Solver struct {
	tt      *TermTable
	cmd     *exec.Cmd
	in      io.WriteCloser
	out     *bufio.Reader
	defined map[int]bool
	declV   map[string]bool
	stack   []*Term // asserted conjuncts, one push level each
	Stats   SolverStats
	Kind    string
	log     io.Writer
	memo    map[string]Res
	lits    map[int]string // term id -> assumption literal
	Assuming bool
	TimeoutMs int
}

// NewSolver starts a solver.  kind is "z3", "z3-new" or "cvc5".
func NewSolver(tt *TermTable, kind string, timeoutMs int) (*Solver, error) {
	var cmd *exec.Cmd
	switch kind {
	case "z3", "":
		kind = "z3"
		cmd = exec.Command("z3", "-in", "-smt2")
	case "z3-new":
		cmd = exec.Command("z3-new", "-in", "-smt2")
	case "cvc5":
		cmd = exec.Command("cvc5", "--incremental", "--lang=smt2", "--produce-models", fmt.Sprintf("--tlimit-per=%d", timeoutMs))
	default:
		return nil, fmt.Errorf("unknown solver %q", kind)
	}
	in, err := cmd.StdinPipe()
	if err != nil {
		return nil, err
	}
	outp, err := cmd.StdoutPipe()
	if err != nil {
		return nil, err
	}
	cmd.Stderr = cmd.Stdout
	if err := cmd.Start(); err != nil {
		return nil, err
	}
	s := &Solver{tt: tt, cmd: cmd, in: in, out: bufio.NewReaderSize(outp, 1<<20), defined: map[int]bool{},
		declV: map[string]bool{}, Kind: kind, memo: map[string]Res{}, TimeoutMs: timeoutMs, lits: map[int]string{}, Assuming: os.Getenv("GOSYM_PUSHPOP") == ""}
	if p := os.Getenv("GOSYM_SMTLOG"); p != "" {
		f, _ := os.Create(fmt.Sprintf("%s.%d.smt2", p, os.Getpid()))
		s.log = f
	}
	s.send("(set-option :print-success false)")
	s.send("(set-option :global-declarations true)")
	s.send("(set-option :produce-models true)")
	if kind != "cvc5" {
		s.send(fmt.Sprintf("(set-option :timeout %d)", timeoutMs))
	} else {
		s.send("(set-logic ALL)")
	}
	return s, nil
}

func (s *Solver) Close() {
	if s.in != nil {
		fmt.Fprintln(s.in, "(exit)")
		s.in.Close()
		s.cmd.Wait()
		s.in = nil
	}
}

func (s *Solver) send(line string) {
	if s.log != nil {
		fmt.Fprintln(s.log, line)
	}
	io.WriteString(s.in, line)
	io.WriteString(s.in, "\n")
}

// define makes sure t and all its sub-terms are declared/defined in the solver.
func (s *Solver) define(t *Term) {
	switch t.Op {
	case OpConst:
		return
	case OpVar:
		if !s.declV[t.Name] {
			s.declV[t.Name] = true
			s.send(fmt.Sprintf("(declare-const %s %s)", smtName(t.Name), sortName(t.W)))
		}
		return
	}
	if s.defined[t.ID] {
		return
	}
	// iterative post-order to avoid deep recursion on long chains
	type fr struct {
		t *Term
		i int
	}
	st := []fr{{t, 0}}
	for len(st) > 0 {
		f := &st[len(st)-1]
		if f.i < len(f.t.Args) {
			a := f.t.Args[f.i]
			f.i++
			if a.Op == OpConst {
				continue
			}
			if a.Op == OpVar {
				s.define(a)
				continue
			}
			if !s.defined[a.ID] {
				st = append(st, fr{a, 0})
			}
			continue
		}
		x := f.t
		st = st[:len(st)-1]
		if s.defined[x.ID] {
			continue
		}
		s.defined[x.ID] = true
		if x.Op == OpUF && !s.declV["uf:"+x.Name] {
			s.declV["uf:"+x.Name] = true
			var as []string
			for _, a := range x.Args {
				as = append(as, sortName(a.W))
			}
			s.send(fmt.Sprintf("(declare-fun %s (%s) %s)", smtName(x.Name), strings.Join(as, " "), sortName(x.W)))
		}
		s.send(fmt.Sprintf("(define-fun t%d () %s %s)", x.ID, sortName(x.W), body(x)))
	}
}

// lit returns the assumption literal guarding term c (asserted once as lit => c).
func (s *Solver) lit(c *Term) string {
	if l, ok := s.lits[c.ID]; ok {
		return l
	}
	s.define(c)
	l := fmt.Sprintf("p%d", c.ID)
	s.send(fmt.Sprintf("(declare-const %s Bool)", l))
	s.send(fmt.Sprintf("(assert (=> %s %s))", l, ref(c)))
	s.lits[c.ID] = l
	return l
}

// Sync makes the solver's assertion stack equal to pc.
func (s *Solver) Sync(pc []*Term) {
	n := 0
	for n < len(pc) && n < len(s.stack) && pc[n] == s.stack[n] {
		n++
	}
	if n < len(s.stack) {
		s.send(fmt.Sprintf("(pop %d)", len(s.stack)-n))
		s.stack = s.stack[:n]
	}
	for _, c := range pc[n:] {
		s.define(c)
		s.send("(push 1)")
		s.send("(assert " + ref(c) + ")")
		s.stack = append(s.stack, c)
	}
}

func pcKey(pc []*Term, extra []*Term) string {
	var sb strings.Builder
	for _, c := range pc {
		sb.WriteString(strconv.Itoa(c.ID))
		sb.WriteByte(',')
	}
	sb.WriteByte('|')
	for _, c := range extra {
		sb.WriteString(strconv.Itoa(c.ID))
		sb.WriteByte(',')
	}
	return sb.String()
}

// Check decides satisfiability of pc ∧ extra.  If wantModel is non-nil and the
// result is Sat, the values of those terms are returned.
func (s *Solver) Check(pc []*Term, extra []*Term, wantModel []*Term) (Res, map[*Term]uint64) {
	for _, e := range extra {
		if e.Op == OpConst && e.Val == 0 {
			return Unsat, nil
		}
	}
	var k string
	if wantModel == nil {
		k = pcKey(pc, extra)
		if r, ok := s.memo[k]; ok {
			return r, nil
		}
	}
	for _, m := range wantModel {
		s.define(m)
	}
	t0 := time.Now()
	if s.Assuming {
		var ls []string
		seen := map[int]bool{}
		for _, c := range pc {
			if !seen[c.ID] {
				seen[c.ID] = true
				ls = append(ls, s.lit(c))
			}
		}
		for _, c := range extra {
			if c.Op == OpConst {
				continue
			}
			if !seen[c.ID] {
				seen[c.ID] = true
				ls = append(ls, s.lit(c))
			}
		}
		s.send("(check-sat-assuming (" + strings.Join(ls, " ") + "))")
	} else {
		s.Sync(pc)
		for _, e := range extra {
			s.define(e)
		}
		s.send("(push 1)")
		for _, e := range extra {
			s.send("(assert " + ref(e) + ")")
		}
		s.send("(check-sat)")
	}
	line := s.readLine()
	res := Unknown
	switch line {
	case "sat":
		res = Sat
	case "unsat":
		res = Unsat
	case "unknown":
		res = Unknown
	default:
		s.Stats.Errors = append(s.Stats.Errors, line)
		res = Unknown
	}
	var model map[*Term]uint64
	if res == Sat && len(wantModel) > 0 {
		model = map[*Term]uint64{}
		// ask in chunks
		for i := 0; i < len(wantModel); i += 200 {
			j := i + 200
			if j > len(wantModel) {
				j = len(wantModel)
			}
			var names []string
			for _, m := range wantModel[i:j] {
				names = append(names, ref(m))
			}
			s.send("(get-value (" + strings.Join(names, " ") + "))")
			vals := s.readValues(j - i)
			for q, m := range wantModel[i:j] {
				if q < len(vals) {
					model[m] = vals[q]
				}
			}
		}
	}
	if !s.Assuming {
		s.send("(pop 1)")
	}
	s.Stats.Queries++
	s.Stats.Seconds += time.Since(t0).Seconds()
	switch res {
	case Sat:
		s.Stats.Sat++
	case Unsat:
		s.Stats.Unsat++
	default:
		s.Stats.Unknown++
	}
	if wantModel == nil {
		s.memo[k] = res
	}
	return res, model
}

func (s *Solver) readLine() string {
	for {
		line, err := s.out.ReadString('\n')
		line = strings.TrimSpace(line)
		if err != nil && line == "" {
			return "(error \"solver closed: " + err.Error() + "\")"
		}
		if line == "" {
			continue
		}
		return line
	}
}

// readValues parses the reply of get-value: ((name val) (name val) ...), possibly multi-line.
func (s *Solver) readValues(n int) []uint64 {
	var sb strings.Builder
	depth := 0
	started := false
	for {
		line, err := s.out.ReadString('\n')
		for _, ch := range line {
			if ch == '(' {
				depth++
				started = true
			} else if ch == ')' {
				depth--
			}
		}
		sb.WriteString(line)
		if (started && depth <= 0) || err != nil {
			break
		}
	}
	txt := sb.String()
	if strings.Contains(txt, "(error") {
		s.Stats.Errors = append(s.Stats.Errors, strings.TrimSpace(txt))
		return nil
	}
	// tokenise: the values are the tokens #x.., #b.., true, false that directly precede ')'
	var vals []uint64
	toks := tokenize(txt)
	for i := 0; i+1 < len(toks); i++ {
		if toks[i+1] != ")" {
			continue
		}
		t := toks[i]
		switch {
		case strings.HasPrefix(t, "#x"):
			v, _ := strconv.ParseUint(t[2:], 16, 64)
			vals = append(vals, v)
		case strings.HasPrefix(t, "#b"):
			v, _ := strconv.ParseUint(t[2:], 2, 64)
			vals = append(vals, v)
		case t == "true":
			vals = append(vals, 1)
		case t == "false":
			vals = append(vals, 0)
		}
	}
	if len(vals) != n {
		s.Stats.Errors = append(s.Stats.Errors, fmt.Sprintf("get-value: expected %d values, parsed %d from %q", n, len(vals), txt))
	}
	return vals
}

func tokenize(s string) []string {
	var toks []string
	i := 0
	for i < len(s) {
		c := s[i]
		switch {
		case c == '(' || c == ')':
			toks = append(toks, string(c))
			i++
		case c == ' ' || c == '\n' || c == '\t' || c == '\r':
			i++
		case c == '|':
			j := i + 1
			for j < len(s) && s[j] != '|' {
				j++
			}
			toks = append(toks, s[i:j+1])
			i = j + 1
		default:
			j := i
			for j < len(s) && !strings.ContainsRune("() \n\t\r", rune(s[j])) {
				j++
			}
			toks = append(toks, s[i:j])
			i = j
		}
	}
	return toks
}

// DumpQuery renders a standalone SMT-LIB2 script for pc ∧ extra (for cross-solver runs).
func DumpQuery(tt *TermTable, pc []*Term, extra []*Term) string {
	var sb strings.Builder
	sb.WriteString("(set-option :produce-models true)\n(set-logic ALL)\n")
	defined := map[int]bool{}
	declared := map[string]bool{}
	var def func(t *Term)
	def = func(t *Term) {
		switch t.Op {
		case OpConst:
			return
		case OpVar:
			if !declared[t.Name] {
				declared[t.Name] = true
				fmt.Fprintf(&sb, "(declare-const %s %s)\n", smtName(t.Name), sortName(t.W))
			}
			return
		}
		if defined[t.ID] {
			return
		}
		defined[t.ID] = true
		for _, a := range t.Args {
			def(a)
		}
		if t.Op == OpUF && !declared["uf:"+t.Name] {
			declared["uf:"+t.Name] = true
			var as []string
			for _, a := range t.Args {
				as = append(as, sortName(a.W))
			}
			fmt.Fprintf(&sb, "(declare-fun %s (%s) %s)\n", smtName(t.Name), strings.Join(as, " "), sortName(t.W))
		}
		fmt.Fprintf(&sb, "(define-fun t%d () %s %s)\n", t.ID, sortName(t.W), body(t))
	}
	for _, c := range pc {
		def(c)
		fmt.Fprintf(&sb, "(assert %s)\n", ref(c))
	}
	for _, c := range extra {
		def(c)
		fmt.Fprintf(&sb, "(assert %s)\n", ref(c))
	}
	sb.WriteString("(check-sat)\n")
	return sb.String()
}

// RunStandalone runs a dumped query on another solver binary and returns its verdict.
func RunStandalone(kind string, script string, timeoutMs int) (Res, string) {
	var cmd *exec.Cmd
	switch kind {
	case "cvc5":
		cmd = exec.Command("cvc5", "--lang=smt2", fmt.Sprintf("--tlimit=%d", timeoutMs))
	case "z3-new":
		cmd = exec.Command("z3-new", "-in", "-smt2", fmt.Sprintf("-t:%d", timeoutMs))
	default:
		cmd = exec.Command("z3", "-in", "-smt2", fmt.Sprintf("-t:%d", timeoutMs))
	}
	cmd.Stdin = strings.NewReader(script)
	out, _ := cmd.CombinedOutput()
	txt := strings.TrimSpace(string(out))
	if strings.Contains(txt, "(error") {
		return Unknown, txt
	}
	lines := strings.Split(txt, "\n")
	switch strings.TrimSpace(lines[0]) {
	case "sat":
		return Sat, txt
	case "unsat":
		return Unsat, txt
	}
	return Unknown, txt
}
