package sym

import (
	"fmt"
	"go/types"
	"strings"

	"golang.org/x/tools/go/ssa"
)

// Value is a symbolic Go value.  Shapes (lengths, pointer targets, dynamic
// types) are concrete; scalar contents are terms.
type Value interface{}

type StrV struct{ B []*Term } // immutable vector of 8-bit terms

// SliceV: Arr == -1 is the nil slice.  LenT != nil means the length is
// symbolic and bounded above by Len (a "bounded symbolic-length" slice).
type SliceV struct {
	Arr, Off, Len, Cap int
	LenT               *Term
}

// PathEl is one step into a struct field or array element.
type PathEl struct {
	I int
	T *Term // symbolic array index (I ignored) when non-nil
}

type PtrV struct {
	Obj  int // -1 = nil
	Path []PathEl
}

type StructV struct{ F []Value }
type ArrayV struct{ E []Value }
type MapV struct{ Obj int } // -1 = nil map
type IfaceV struct {
	T types.Type // nil = nil interface
	V Value
}
type FuncV struct {
	Fn   *ssa.Function // nil = nil func
	Bind []Value
}
type TupleV struct{ E []Value }
type FloatV struct{ F float64 }

// OpaqueV wraps a library value the engine does not interpret structurally.
type OpaqueV struct {
	Kind   string
	Native interface{}
}

// IterV refers to an iterator object on the heap (range over string / map).
type IterV struct{ Obj int }

var nilPtr = PtrV{Obj: -1}

// Obj is a heap object.  Objects are copy-on-write between states.
type Obj struct {
	owner int
	Val   Value // ordinary allocation (may be StructV/ArrayV/scalar)
	// map payload (insertion ordered)
	IsMap      bool
	Keys, Vals []Value
	// iterator payload
	Iter *iterState
	// poisoned: result of an impossible merge; any access is an engine error
	Poison bool
	Note   string
}

type iterState struct {
	isMap bool
	str   StrV
	keys  []Value
	vals  []Value
	pos   int
}

// ---------------------------------------------------------------- type helpers

func basicWidth(b *types.Basic) (w int, signed bool, ok bool) {
	switch b.Kind() {
	case types.Bool, types.UntypedBool:
		return 0, false, true
	case types.Int8:
		return 8, true, true
	case types.Uint8:
		return 8, false, true
	case types.Int16:
		return 16, true, true
	case types.Uint16:
		return 16, false, true
	case types.Int32, types.UntypedRune:
		return 32, true, true
	case types.Uint32:
		return 32, false, true
	case types.Int, types.Int64, types.UntypedInt:
		return 64, true, true
	case types.Uint, types.Uint64, types.Uintptr:
		return 64, false, true
	}
	return 0, false, false
}

func isString(t types.Type) bool {
	b, ok := t.Underlying().(*types.Basic)
	return ok && b.Info()&types.IsString != 0
}

func isFloat(t types.Type) bool {
	b, ok := t.Underlying().(*types.Basic)
	return ok && b.Info()&types.IsFloat != 0
}

func intInfo(t types.Type) (w int, signed bool, ok bool) {
	b, isB := t.Underlying().(*types.Basic)
	if !isB {
		return 0, false, false
	}
	return basicWidth(b)
}

// zero returns the zero value of type t.
func (e *Engine) zero(t types.Type) Value {
	switch u := t.Underlying().(type) {
	case *types.Basic:
		if w, _, ok := basicWidth(u); ok {
			return e.TT.Const(w, 0)
		}
		if u.Info()&types.IsString != 0 {
			return StrV{}
		}
		if u.Info()&types.IsFloat != 0 {
			return FloatV{}
		}
		if u.Kind() == types.UnsafePointer {
			return nilPtr
		}
		if u.Kind() == types.UntypedNil {
			return nilPtr
		}
		if u.Kind() == types.Invalid {
			// the unused component of a map iteration (for k := range m)
			return e.TT.Const(8, 0)
		}
	case *types.Pointer:
		return nilPtr
	case *types.Slice:
		return SliceV{Arr: -1}
	case *types.Map:
		return MapV{Obj: -1}
	case *types.Interface:
		return IfaceV{}
	case *types.Signature:
		return FuncV{}
	case *types.Chan:
		return OpaqueV{Kind: "nilchan"}
	case *types.Struct:
		f := make([]Value, u.NumFields())
		for i := range f {
			f[i] = e.zero(u.Field(i).Type())
		}
		return StructV{F: f}
	case *types.Array:
		n := int(u.Len())
		el := make([]Value, n)
		z := e.zero(u.Elem())
		for i := range el {
			el[i] = z
		}
		return ArrayV{E: el}
	case *types.Tuple:
		el := make([]Value, u.Len())
		for i := range el {
			el[i] = e.zero(u.At(i).Type())
		}
		return TupleV{E: el}
	}
	panic(fmt.Sprintf("zero: unsupported type %v (%T)", t, t.Underlying()))
}

// ---------------------------------------------------------------- strings

func (e *Engine) ConcreteStr(s string) StrV {
	b := make([]*Term, len(s))
	for i := 0; i < len(s); i++ {
		b[i] = e.TT.Const(8, uint64(s[i]))
	}
	return StrV{B: b}
}

// StrConcrete returns the Go string if all bytes are constants.
func StrConcrete(s StrV) (string, bool) {
	var sb strings.Builder
	for _, b := range s.B {
		if b.Op != OpConst {
			return "", false
		}
		sb.WriteByte(byte(b.Val))
	}
	return sb.String(), true
}

// strEq: Bool term for a == b.
func (e *Engine) strEq(a, b StrV) *Term {
	if len(a.B) != len(b.B) {
		return e.TT.False
	}
	cs := make([]*Term, 0, len(a.B))
	for i := range a.B {
		c := e.TT.Eq(a.B[i], b.B[i])
		if c == e.TT.False {
			return c
		}
		cs = append(cs, c)
	}
	return e.TT.And(cs...)
}

// strLess: Bool term for a < b (lexicographic, bytewise).
func (e *Engine) strLess(a, b StrV) *Term {
	// a<b  <=>  exists i: prefix equal up to i and (a[i] < b[i]) or a is proper prefix of b
	tt := e.TT
	n := len(a.B)
	if len(b.B) < n {
		n = len(b.B)
	}
	// build from the end
	var res *Term
	if len(a.B) < len(b.B) {
		res = tt.True
	} else {
		res = tt.False
	}
	for i := n - 1; i >= 0; i-- {
		lt := tt.Cmp(OpUlt, a.B[i], b.B[i])
		eq := tt.Eq(a.B[i], b.B[i])
		res = tt.Or(lt, tt.And(eq, res))
	}
	return res
}

// ---------------------------------------------------------------- equality

// valueEq returns a Bool term for a == b following Go's comparison rules.
func (e *Engine) valueEq(a, b Value) *Term {
	tt := e.TT
	switch x := a.(type) {
	case *Term:
		y, ok := b.(*Term)
		if !ok {
			panic(fmt.Sprintf("valueEq: term vs %T", b))
		}
		return tt.Eq(x, y)
	case StrV:
		return e.strEq(x, b.(StrV))
	case FloatV:
		return tt.Bool(x.F == b.(FloatV).F)
	case PtrV:
		y, ok := b.(PtrV)
		if !ok {
			if o, isO := b.(OpaqueV); isO {
				return tt.Bool(x.Obj == -1 && o.Native == nil)
			}
			panic(fmt.Sprintf("valueEq: ptr vs %T", b))
		}
		if x.Obj != y.Obj || len(x.Path) != len(y.Path) {
			return tt.False
		}
		cs := []*Term{}
		for i := range x.Path {
			p, q := x.Path[i], y.Path[i]
			if p.T == nil && q.T == nil {
				if p.I != q.I {
					return tt.False
				}
				continue
			}
			pt, qt := p.T, q.T
			if pt == nil {
				pt = tt.Int(int64(p.I))
			}
			if qt == nil {
				qt = tt.Int(int64(q.I))
			}
			cs = append(cs, tt.Eq(pt, qt))
		}
		return tt.And(cs...)
	case SliceV:
		y := b.(SliceV)
		// only comparison with nil is legal in Go
		return tt.Bool((x.Arr == -1) == (y.Arr == -1))
	case MapV:
		y := b.(MapV)
		return tt.Bool((x.Obj == -1) == (y.Obj == -1))
	case FuncV:
		y := b.(FuncV)
		return tt.Bool((x.Fn == nil) == (y.Fn == nil))
	case IfaceV:
		y, ok := b.(IfaceV)
		if !ok {
			panic(fmt.Sprintf("valueEq: iface vs %T", b))
		}
		if x.T == nil || y.T == nil {
			return tt.Bool(x.T == nil && y.T == nil)
		}
		if !types.Identical(x.T, y.T) {
			return tt.False
		}
		return e.valueEq(x.V, y.V)
	case StructV:
		y := b.(StructV)
		cs := make([]*Term, 0, len(x.F))
		for i := range x.F {
			cs = append(cs, e.valueEq(x.F[i], y.F[i]))
		}
		return tt.And(cs...)
	case ArrayV:
		y := b.(ArrayV)
		cs := make([]*Term, 0, len(x.E))
		for i := range x.E {
			cs = append(cs, e.valueEq(x.E[i], y.E[i]))
		}
		return tt.And(cs...)
	case OpaqueV:
		switch y := b.(type) {
		case OpaqueV:
			return tt.Bool(x.Native == y.Native)
		case PtrV:
			return tt.Bool(x.Native == nil && y.Obj == -1)
		}
	}
	panic(fmt.Sprintf("valueEq: unsupported %T vs %T", a, b))
}

// sameValue is a cheap structural identity test (no solver, no terms built).
func sameValue(a, b Value) bool {
	switch x := a.(type) {
	case nil:
		return b == nil
	case *Term:
		y, ok := b.(*Term)
		return ok && x == y
	case StrV:
		y, ok := b.(StrV)
		if !ok || len(x.B) != len(y.B) {
			return false
		}
		for i := range x.B {
			if x.B[i] != y.B[i] {
				return false
			}
		}
		return true
	case FloatV:
		y, ok := b.(FloatV)
		return ok && x.F == y.F
	case PtrV:
		y, ok := b.(PtrV)
		if !ok || x.Obj != y.Obj || len(x.Path) != len(y.Path) {
			return false
		}
		for i := range x.Path {
			if x.Path[i] != y.Path[i] {
				return false
			}
		}
		return true
	case SliceV:
		y, ok := b.(SliceV)
		return ok && x == y
	case MapV:
		y, ok := b.(MapV)
		return ok && x == y
	case IterV:
		y, ok := b.(IterV)
		return ok && x == y
	case FuncV:
		y, ok := b.(FuncV)
		if !ok || x.Fn != y.Fn || len(x.Bind) != len(y.Bind) {
			return false
		}
		for i := range x.Bind {
			if !sameValue(x.Bind[i], y.Bind[i]) {
				return false
			}
		}
		return true
	case IfaceV:
		y, ok := b.(IfaceV)
		if !ok {
			return false
		}
		if x.T == nil || y.T == nil {
			return x.T == nil && y.T == nil
		}
		return types.Identical(x.T, y.T) && sameValue(x.V, y.V)
	case StructV:
		y, ok := b.(StructV)
		if !ok || len(x.F) != len(y.F) {
			return false
		}
		for i := range x.F {
			if !sameValue(x.F[i], y.F[i]) {
				return false
			}
		}
		return true
	case ArrayV:
		y, ok := b.(ArrayV)
		if !ok || len(x.E) != len(y.E) {
			return false
		}
		for i := range x.E {
			if !sameValue(x.E[i], y.E[i]) {
				return false
			}
		}
		return true
	case TupleV:
		y, ok := b.(TupleV)
		if !ok || len(x.E) != len(y.E) {
			return false
		}
		for i := range x.E {
			if !sameValue(x.E[i], y.E[i]) {
				return false
			}
		}
		return true
	case OpaqueV:
		y, ok := b.(OpaqueV)
		return ok && x.Kind == y.Kind && x.Native == y.Native
	}
	return false
}

// mergeValue builds ite(c, a, b) structurally; ok=false when shapes differ.
func (e *Engine) mergeValue(c *Term, a, b Value) (Value, bool) {
	if sameValue(a, b) {
		return a, true
	}
	tt := e.TT
	switch x := a.(type) {
	case *Term:
		y, ok := b.(*Term)
		if !ok || x.W != y.W {
			return nil, false
		}
		return tt.Ite(c, x, y), true
	case StrV:
		y, ok := b.(StrV)
		if !ok || len(x.B) != len(y.B) {
			return nil, false
		}
		out := make([]*Term, len(x.B))
		for i := range out {
			out[i] = tt.Ite(c, x.B[i], y.B[i])
		}
		return StrV{B: out}, true
	case StructV:
		y, ok := b.(StructV)
		if !ok || len(x.F) != len(y.F) {
			return nil, false
		}
		out := make([]Value, len(x.F))
		for i := range out {
			v, ok := e.mergeValue(c, x.F[i], y.F[i])
			if !ok {
				return nil, false
			}
			out[i] = v
		}
		return StructV{F: out}, true
	case ArrayV:
		y, ok := b.(ArrayV)
		if !ok || len(x.E) != len(y.E) {
			return nil, false
		}
		out := make([]Value, len(x.E))
		for i := range out {
			v, ok := e.mergeValue(c, x.E[i], y.E[i])
			if !ok {
				return nil, false
			}
			out[i] = v
		}
		return ArrayV{E: out}, true
	case TupleV:
		y, ok := b.(TupleV)
		if !ok || len(x.E) != len(y.E) {
			return nil, false
		}
		out := make([]Value, len(x.E))
		for i := range out {
			v, ok := e.mergeValue(c, x.E[i], y.E[i])
			if !ok {
				return nil, false
			}
			out[i] = v
		}
		return TupleV{E: out}, true
	case IfaceV:
		y, ok := b.(IfaceV)
		if !ok || x.T == nil || y.T == nil || !types.Identical(x.T, y.T) {
			return nil, false
		}
		v, ok := e.mergeValue(c, x.V, y.V)
		if !ok {
			return nil, false
		}
		return IfaceV{T: x.T, V: v}, true
	case SliceV:
		y, ok := b.(SliceV)
		if !ok || x.Arr != y.Arr || x.Off != y.Off || x.Cap != y.Cap || x.Arr == -1 {
			return nil, false
		}
		// same backing array and offset, different lengths: symbolic length
		xl, yl := x.LenT, y.LenT
		if xl == nil {
			xl = tt.Int(int64(x.Len))
		}
		if yl == nil {
			yl = tt.Int(int64(y.Len))
		}
		m := x.Len
		if y.Len > m {
			m = y.Len
		}
		return SliceV{Arr: x.Arr, Off: x.Off, Len: m, Cap: x.Cap, LenT: tt.Ite(c, xl, yl)}, true
	case PtrV:
		y, ok := b.(PtrV)
		if !ok || x.Obj != y.Obj || len(x.Path) != len(y.Path) {
			return nil, false
		}
		out := make([]PathEl, len(x.Path))
		for i := range out {
			p, q := x.Path[i], y.Path[i]
			if p == q {
				out[i] = p
				continue
			}
			pt, qt := p.T, q.T
			if pt == nil {
				pt = tt.Int(int64(p.I))
			}
			if qt == nil {
				qt = tt.Int(int64(q.I))
			}
			out[i] = PathEl{T: tt.Ite(c, pt, qt)}
		}
		return PtrV{Obj: x.Obj, Path: out}, true
	}
	return nil, false
}

func describe(v Value) string {
	switch x := v.(type) {
	case nil:
		return "<nil>"
	case *Term:
		return x.String()
	case StrV:
		if s, ok := StrConcrete(x); ok {
			return fmt.Sprintf("%q", s)
		}
		return fmt.Sprintf("str[%d]", len(x.B))
	case SliceV:
		return fmt.Sprintf("slice{arr=%d off=%d len=%d cap=%d sym=%v}", x.Arr, x.Off, x.Len, x.Cap, x.LenT != nil)
	case PtrV:
		return fmt.Sprintf("ptr{%d %v}", x.Obj, x.Path)
	case StructV:
		var p []string
		for _, f := range x.F {
			p = append(p, describe(f))
		}
		return "{" + strings.Join(p, ", ") + "}"
	case IfaceV:
		if x.T == nil {
			return "iface(nil)"
		}
		return fmt.Sprintf("iface(%v: %s)", x.T, describe(x.V))
	case FuncV:
		if x.Fn == nil {
			return "func(nil)"
		}
		return "func " + x.Fn.String()
	case TupleV:
		var p []string
		for _, f := range x.E {
			p = append(p, describe(f))
		}
		return "(" + strings.Join(p, ", ") + ")"
	}
	return fmt.Sprintf("%T", v)
}
