// Package sym is gosym: a symbolic executor for Go SSA that emits SMT-LIB2.
//
// term.go: hash-consed terms over Bool and bit-vectors (width <= 64) with
// construction-time simplification.
package sym

import (
	"fmt"
	"math/bits"
	"sort"
	"strings"
)

type Op uint8

const (
	OpConst Op = iota // BV constant (w>0) or Bool constant (w==0)
	OpVar
	OpUF
	OpNot
	OpAnd
	OpOr
	OpIte
	OpEq
	OpUlt
	OpUle
	OpSlt
	OpSle
	OpAdd
	OpSub
	OpMul
	OpUDiv
	OpURem
	OpSDiv
	OpSRem
	OpBAnd
	OpBOr
	OpBXor
	OpBNot
	OpNeg
	OpShl
	OpLshr
	OpAshr
	OpZext
	OpSext
	OpExtract
	OpConcat
)

var opNames = map[Op]string{
	OpNot: "not", OpAnd: "and", OpOr: "or", OpIte: "ite", OpEq: "=",
	OpUlt: "bvult", OpUle: "bvule", OpSlt: "bvslt", OpSle: "bvsle",
	OpAdd: "bvadd", OpSub: "bvsub", OpMul: "bvmul", OpUDiv: "bvudiv", OpURem: "bvurem",
	OpSDiv: "bvsdiv", OpSRem: "bvsrem", OpBAnd: "bvand", OpBOr: "bvor", OpBXor: "bvxor",
	OpBNot: "bvnot", OpNeg: "bvneg", OpShl: "bvshl", OpLshr: "bvlshr", OpAshr: "bvashr",
	OpConcat: "concat",
}

// Term is an immutable hash-consed SMT term.  W==0 means Bool.
type Term struct {
	ID   int
	Op   Op
	W    int
	Args []*Term
	Val  uint64 // constant value; for Extract: hi<<8|lo; for Zext/Sext: unused (W gives target)
	Name string // var / uf name
	Set  *ByteSet
	size int // dag-ignorant size estimate (capped)
}

// ByteSet is a set of byte values (value-set of an 8-bit variable).
type ByteSet [4]uint64

func (s *ByteSet) Has(b byte) bool { return s[b>>6]&(1<<(b&63)) != 0 }
func (s *ByteSet) Add(b byte)      { s[b>>6] |= 1 << (b & 63) }
func (s *ByteSet) Union(o *ByteSet) ByteSet {
	return ByteSet{s[0] | o[0], s[1] | o[1], s[2] | o[2], s[3] | o[3]}
}
func (s *ByteSet) Count() int {
	return bits.OnesCount64(s[0]) + bits.OnesCount64(s[1]) + bits.OnesCount64(s[2]) + bits.OnesCount64(s[3])
}
func SetOf(alpha string) *ByteSet {
	var s ByteSet
	for i := 0; i < len(alpha); i++ {
		s.Add(alpha[i])
	}
	return &s
}

// TermTable owns all terms of one worker.
type TermTable struct {
	tab   map[string]*Term
	terms []*Term
	True  *Term
	False *Term
	// declared variables and ufs, in creation order
	Vars []*Term
	UFs  map[string]*Term // name -> sample application (for declaration)
}

func NewTermTable() *TermTable {
	tt := &TermTable{tab: map[string]*Term{}, UFs: map[string]*Term{}}
	tt.True = tt.mk(&Term{Op: OpConst, W: 0, Val: 1})
	tt.False = tt.mk(&Term{Op: OpConst, W: 0, Val: 0})
	return tt
}

func (tt *TermTable) NumTerms() int { return len(tt.terms) }

func key(t *Term) string {
	var sb strings.Builder
	fmt.Fprintf(&sb, "%d:%d:%d:%s", t.Op, t.W, t.Val, t.Name)
	for _, a := range t.Args {
		fmt.Fprintf(&sb, ",%d", a.ID)
	}
	return sb.String()
}

func (tt *TermTable) mk(t *Term) *Term {
	k := key(t)
	if e, ok := tt.tab[k]; ok {
		return e
	}
	t.ID = len(tt.terms)
	sz := 1
	for _, a := range t.Args {
		sz += a.size
	}
	if sz > 1<<30 {
		sz = 1 << 30
	}
	t.size = sz
	tt.terms = append(tt.terms, t)
	tt.tab[k] = t
	return t
}

func mask(w int) uint64 {
	if w >= 64 {
		return ^uint64(0)
	}
	return (uint64(1) << uint(w)) - 1
}

func (t *Term) IsConst() bool { return t.Op == OpConst }
func (t *Term) IsBool() bool  { return t.W == 0 }

// SignedVal returns the constant as a sign-extended int64.
func (t *Term) SignedVal() int64 {
	if t.W >= 64 || t.W == 0 {
		return int64(t.Val)
	}
	if t.Val&(1<<uint(t.W-1)) != 0 {
		return int64(t.Val | ^mask(t.W))
	}
	return int64(t.Val)
}

func (tt *TermTable) Bool(b bool) *Term {
	if b {
		return tt.True
	}
	return tt.False
}

func (tt *TermTable) Const(w int, v uint64) *Term {
	if w == 0 {
		return tt.Bool(v != 0)
	}
	return tt.mk(&Term{Op: OpConst, W: w, Val: v & mask(w)})
}

func (tt *TermTable) Int(v int64) *Term { return tt.Const(64, uint64(v)) }

// Var creates (or returns) a variable.  set may be nil.
func (tt *TermTable) Var(name string, w int, set *ByteSet) *Term {
	t := &Term{Op: OpVar, W: w, Name: name}
	k := key(t)
	if e, ok := tt.tab[k]; ok {
		return e
	}
	t.Set = set
	r := tt.mk(t)
	tt.Vars = append(tt.Vars, r)
	return r
}

// UF creates an application of an uninterpreted function.
func (tt *TermTable) UF(name string, w int, args ...*Term) *Term {
	t := tt.mk(&Term{Op: OpUF, W: w, Name: name, Args: args})
	if _, ok := tt.UFs[name]; !ok {
		tt.UFs[name] = t
	}
	return t
}

// ---------------------------------------------------------------- value sets

// valueSet returns the set of possible values of t if it is known to be < 256.
func valueSet(t *Term, depth int) (ByteSet, bool) {
	switch t.Op {
	case OpConst:
		if t.W > 0 && t.Val < 256 {
			var s ByteSet
			s.Add(byte(t.Val))
			return s, true
		}
	case OpVar:
		if t.Set != nil {
			return *t.Set, true
		}
	case OpZext:
		return valueSet(t.Args[0], depth)
	case OpIte:
		if depth > 12 {
			return ByteSet{}, false
		}
		a, ok := valueSet(t.Args[1], depth+1)
		if !ok {
			return a, false
		}
		b, ok := valueSet(t.Args[2], depth+1)
		if !ok {
			return b, false
		}
		return a.Union(&b), true
	}
	return ByteSet{}, false
}

// ValueSet is the exported form.
func ValueSet(t *Term) (ByteSet, bool) { return valueSet(t, 0) }

// ---------------------------------------------------------------- const trees

// isConstTree: t is a constant or an ite-tree with constant leaves (bounded size).
func isConstTree(t *Term, budget *int) bool {
	if *budget <= 0 {
		return false
	}
	*budget--
	switch t.Op {
	case OpConst:
		return true
	case OpIte:
		return isConstTree(t.Args[1], budget) && isConstTree(t.Args[2], budget)
	}
	return false
}

func constTree(t *Term) bool {
	if t.Op == OpConst {
		return true
	}
	if t.Op != OpIte {
		return false
	}
	b := 64
	return isConstTree(t, &b)
}

// mapLeaves applies f to each constant leaf of a const tree.
func (tt *TermTable) mapLeaves(t *Term, f func(*Term) *Term) *Term {
	if t.Op == OpConst {
		return f(t)
	}
	return tt.Ite(t.Args[0], tt.mapLeaves(t.Args[1], f), tt.mapLeaves(t.Args[2], f))
}

// ConstLeaves collects the distinct constant leaves of a const tree.
func ConstLeaves(t *Term) ([]uint64, bool) {
	if !constTree(t) {
		return nil, false
	}
	seen := map[uint64]bool{}
	var out []uint64
	var rec func(*Term)
	rec = func(x *Term) {
		if x.Op == OpConst {
			if !seen[x.Val] {
				seen[x.Val] = true
				out = append(out, x.Val)
			}
			return
		}
		rec(x.Args[1])
		rec(x.Args[2])
	}
	rec(t)
	return out, true
}

// ---------------------------------------------------------------- Bool ops

func (tt *TermTable) Not(a *Term) *Term {
	if a.W != 0 {
		panic("Not on non-bool")
	}
	if a.Op == OpConst {
		return tt.Bool(a.Val == 0)
	}
	if a.Op == OpNot {
		return a.Args[0]
	}
	return tt.mk(&Term{Op: OpNot, Args: []*Term{a}})
}

func isNegOf(a, b *Term) bool {
	return (a.Op == OpNot && a.Args[0] == b) || (b.Op == OpNot && b.Args[0] == a)
}

func (tt *TermTable) And(xs ...*Term) *Term {
	var out []*Term
	seen := map[int]bool{}
	var add func(x *Term) bool
	add = func(x *Term) bool {
		if x.W != 0 {
			panic("And on non-bool")
		}
		if x.Op == OpConst {
			return x.Val != 0
		}
		if x.Op == OpAnd {
			for _, y := range x.Args {
				if !add(y) {
					return false
				}
			}
			return true
		}
		if seen[x.ID] {
			return true
		}
		for _, y := range out {
			if isNegOf(x, y) {
				return false
			}
		}
		seen[x.ID] = true
		out = append(out, x)
		return true
	}
	for _, x := range xs {
		if !add(x) {
			return tt.False
		}
	}
	switch len(out) {
	case 0:
		return tt.True
	case 1:
		return out[0]
	}
	sort.Slice(out, func(i, j int) bool { return out[i].ID < out[j].ID })
	return tt.mk(&Term{Op: OpAnd, Args: out})
}

func (tt *TermTable) Or(xs ...*Term) *Term {
	var out []*Term
	seen := map[int]bool{}
	var add func(x *Term) bool
	add = func(x *Term) bool {
		if x.W != 0 {
			panic("Or on non-bool")
		}
		if x.Op == OpConst {
			return x.Val == 0
		}
		if x.Op == OpOr {
			for _, y := range x.Args {
				if !add(y) {
					return false
				}
			}
			return true
		}
		if seen[x.ID] {
			return true
		}
		for _, y := range out {
			if isNegOf(x, y) {
				return false
			}
		}
		seen[x.ID] = true
		out = append(out, x)
		return true
	}
	for _, x := range xs {
		if !add(x) {
			return tt.True
		}
	}
	switch len(out) {
	case 0:
		return tt.False
	case 1:
		return out[0]
	}
	sort.Slice(out, func(i, j int) bool { return out[i].ID < out[j].ID })
	return tt.mk(&Term{Op: OpOr, Args: out})
}

func (tt *TermTable) Implies(a, b *Term) *Term { return tt.Or(tt.Not(a), b) }

func (tt *TermTable) Ite(c, a, b *Term) *Term {
	if c.W != 0 {
		panic("Ite cond non-bool")
	}
	if a.W != b.W {
		panic(fmt.Sprintf("Ite width mismatch %d vs %d", a.W, b.W))
	}
	if c.Op == OpConst {
		if c.Val != 0 {
			return a
		}
		return b
	}
	if a == b {
		return a
	}
	if c.Op == OpNot {
		return tt.Ite(c.Args[0], b, a)
	}
	if a.W == 0 {
		if a.Op == OpConst && b.Op == OpConst {
			if a.Val != 0 {
				return c
			}
			return tt.Not(c)
		}
		if a.Op == OpConst {
			if a.Val != 0 {
				return tt.Or(c, b)
			}
			return tt.And(tt.Not(c), b)
		}
		if b.Op == OpConst {
			if b.Val != 0 {
				return tt.Or(tt.Not(c), a)
			}
			return tt.And(c, a)
		}
	}
	// ite(c, x, ite(c, y, z)) -> ite(c, x, z)
	if b.Op == OpIte && b.Args[0] == c {
		return tt.Ite(c, a, b.Args[2])
	}
	if a.Op == OpIte && a.Args[0] == c {
		return tt.Ite(c, a.Args[1], b)
	}
	return tt.mk(&Term{Op: OpIte, W: a.W, Args: []*Term{c, a, b}})
}

func (tt *TermTable) Eq(a, b *Term) *Term {
	if a.W != b.W {
		panic(fmt.Sprintf("Eq width mismatch %d vs %d", a.W, b.W))
	}
	if a == b {
		return tt.True
	}
	if a.Op == OpConst && b.Op == OpConst {
		return tt.Bool(a.Val == b.Val)
	}
	if a.Op == OpConst {
		a, b = b, a
	}
	if a.W == 0 {
		if b.Op == OpConst {
			if b.Val != 0 {
				return a
			}
			return tt.Not(a)
		}
		if isNegOf(a, b) {
			return tt.False
		}
	} else if b.Op == OpConst {
		if constTree(a) {
			return tt.mapLeavesBool(a, func(l *Term) *Term { return tt.Bool(l.Val == b.Val) })
		}
		if s, ok := valueSet(a, 0); ok {
			if b.Val >= 256 || !s.Has(byte(b.Val)) {
				return tt.False
			}
			if s.Count() == 1 {
				return tt.True
			}
		}
		// zext(x) == const -> x == const (if fits)
		if a.Op == OpZext {
			x := a.Args[0]
			if b.Val&^mask(x.W) != 0 {
				return tt.False
			}
			return tt.Eq(x, tt.Const(x.W, b.Val))
		}
	} else if a.W > 0 {
		sa, oka := valueSet(a, 0)
		sb, okb := valueSet(b, 0)
		if oka && okb {
			if sa[0]&sb[0] == 0 && sa[1]&sb[1] == 0 && sa[2]&sb[2] == 0 && sa[3]&sb[3] == 0 {
				return tt.False
			}
		}
		if a.Op == OpZext && b.Op == OpZext && a.Args[0].W == b.Args[0].W {
			return tt.Eq(a.Args[0], b.Args[0])
		}
	}
	if a.ID > b.ID {
		a, b = b, a
	}
	return tt.mk(&Term{Op: OpEq, Args: []*Term{a, b}})
}

func (tt *TermTable) mapLeavesBool(t *Term, f func(*Term) *Term) *Term {
	if t.Op == OpConst {
		return f(t)
	}
	return tt.Ite(t.Args[0], tt.mapLeavesBool(t.Args[1], f), tt.mapLeavesBool(t.Args[2], f))
}

func (tt *TermTable) Ne(a, b *Term) *Term { return tt.Not(tt.Eq(a, b)) }

func cmpConst(op Op, w int, a, b uint64) bool {
	switch op {
	case OpUlt:
		return a < b
	case OpUle:
		return a <= b
	case OpSlt:
		return sx(a, w) < sx(b, w)
	case OpSle:
		return sx(a, w) <= sx(b, w)
	}
	panic("cmpConst")
}

func sx(v uint64, w int) int64 {
	if w >= 64 {
		return int64(v)
	}
	if v&(1<<uint(w-1)) != 0 {
		return int64(v | ^mask(w))
	}
	return int64(v)
}

// Cmp builds a comparison op in {OpUlt,OpUle,OpSlt,OpSle}.
func (tt *TermTable) Cmp(op Op, a, b *Term) *Term {
	if a.W != b.W || a.W == 0 {
		panic(fmt.Sprintf("Cmp width mismatch %d vs %d", a.W, b.W))
	}
	if a.Op == OpConst && b.Op == OpConst {
		return tt.Bool(cmpConst(op, a.W, a.Val, b.Val))
	}
	if a == b {
		return tt.Bool(op == OpUle || op == OpSle)
	}
	if b.Op == OpConst && constTree(a) {
		return tt.mapLeavesBool(a, func(l *Term) *Term { return tt.Bool(cmpConst(op, a.W, l.Val, b.Val)) })
	}
	if a.Op == OpConst && constTree(b) {
		return tt.mapLeavesBool(b, func(l *Term) *Term { return tt.Bool(cmpConst(op, a.W, a.Val, l.Val)) })
	}
	// value-set folding (values < 256 are non-negative in any width > 8; for W==8 signed ops are avoided)
	if a.W > 8 || op == OpUlt || op == OpUle {
		if b.Op == OpConst {
			if s, ok := valueSet(a, 0); ok {
				all, none := true, true
				for v := 0; v < 256; v++ {
					if s.Has(byte(v)) {
						if cmpConst(op, a.W, uint64(v), b.Val) {
							none = false
						} else {
							all = false
						}
					}
				}
				if all {
					return tt.True
				}
				if none {
					return tt.False
				}
			}
		}
		if a.Op == OpConst {
			if s, ok := valueSet(b, 0); ok {
				all, none := true, true
				for v := 0; v < 256; v++ {
					if s.Has(byte(v)) {
						if cmpConst(op, a.W, a.Val, uint64(v)) {
							none = false
						} else {
							all = false
						}
					}
				}
				if all {
					return tt.True
				}
				if none {
					return tt.False
				}
			}
		}
	}
	return tt.mk(&Term{Op: op, Args: []*Term{a, b}})
}

// ---------------------------------------------------------------- BV ops

func foldBin(op Op, w int, a, b uint64) (uint64, bool) {
	m := mask(w)
	switch op {
	case OpAdd:
		return (a + b) & m, true
	case OpSub:
		return (a - b) & m, true
	case OpMul:
		return (a * b) & m, true
	case OpUDiv:
		if b == 0 {
			return m, true
		}
		return a / b, true
	case OpURem:
		if b == 0 {
			return a, true
		}
		return a % b, true
	case OpSDiv:
		if b == 0 {
			return 0, false
		}
		sa, sb := sx(a, w), sx(b, w)
		if sb == -1 {
			return uint64(-sa) & m, true
		}
		return uint64(sa/sb) & m, true
	case OpSRem:
		if b == 0 {
			return 0, false
		}
		sa, sb := sx(a, w), sx(b, w)
		if sb == -1 {
			return 0, true
		}
		return uint64(sa%sb) & m, true
	case OpBAnd:
		return a & b, true
	case OpBOr:
		return a | b, true
	case OpBXor:
		return a ^ b, true
	case OpShl:
		if b >= uint64(w) {
			return 0, true
		}
		return (a << b) & m, true
	case OpLshr:
		if b >= uint64(w) {
			return 0, true
		}
		return a >> b, true
	case OpAshr:
		sa := sx(a, w)
		if b >= uint64(w) {
			b = uint64(w - 1)
		}
		return uint64(sa>>b) & m, true
	}
	return 0, false
}

// Bin builds a binary bit-vector operation.  Shift semantics are SMT-LIB's
// (count >= width gives 0 / sign fill), which coincides with Go's.
func (tt *TermTable) Bin(op Op, a, b *Term) *Term {
	if a.W != b.W || a.W == 0 {
		panic(fmt.Sprintf("Bin %v width mismatch %d vs %d", opNames[op], a.W, b.W))
	}
	w := a.W
	if a.Op == OpConst && b.Op == OpConst {
		if v, ok := foldBin(op, w, a.Val, b.Val); ok {
			return tt.Const(w, v)
		}
	}
	// identities
	switch op {
	case OpAdd:
		if a.Op == OpConst && a.Val == 0 {
			return b
		}
		if b.Op == OpConst && b.Val == 0 {
			return a
		}
	case OpSub:
		if b.Op == OpConst && b.Val == 0 {
			return a
		}
		if a == b {
			return tt.Const(w, 0)
		}
	case OpMul:
		if a.Op == OpConst && a.Val == 1 {
			return b
		}
		if b.Op == OpConst && b.Val == 1 {
			return a
		}
		if (a.Op == OpConst && a.Val == 0) || (b.Op == OpConst && b.Val == 0) {
			return tt.Const(w, 0)
		}
	case OpBAnd:
		if a == b {
			return a
		}
		if (a.Op == OpConst && a.Val == 0) || (b.Op == OpConst && b.Val == 0) {
			return tt.Const(w, 0)
		}
		if a.Op == OpConst && a.Val == mask(w) {
			return b
		}
		if b.Op == OpConst && b.Val == mask(w) {
			return a
		}
	case OpBOr:
		if a == b {
			return a
		}
		if a.Op == OpConst && a.Val == 0 {
			return b
		}
		if b.Op == OpConst && b.Val == 0 {
			return a
		}
	case OpBXor:
		if a == b {
			return tt.Const(w, 0)
		}
		if a.Op == OpConst && a.Val == 0 {
			return b
		}
		if b.Op == OpConst && b.Val == 0 {
			return a
		}
	case OpShl, OpLshr, OpAshr:
		if b.Op == OpConst && b.Val == 0 {
			return a
		}
	}
	// push through const trees
	if op != OpSDiv && op != OpSRem {
		if b.Op == OpConst && a.Op == OpIte && constTree(a) {
			return tt.mapLeaves(a, func(l *Term) *Term { v, _ := foldBin(op, w, l.Val, b.Val); return tt.Const(w, v) })
		}
		if a.Op == OpConst && b.Op == OpIte && constTree(b) {
			return tt.mapLeaves(b, func(l *Term) *Term { v, _ := foldBin(op, w, a.Val, l.Val); return tt.Const(w, v) })
		}
	}
	// commutative normalisation
	switch op {
	case OpAdd, OpMul, OpBAnd, OpBOr, OpBXor:
		if a.ID > b.ID {
			a, b = b, a
		}
	}
	return tt.mk(&Term{Op: op, W: w, Args: []*Term{a, b}})
}

func (tt *TermTable) BNot(a *Term) *Term {
	if a.Op == OpConst {
		return tt.Const(a.W, ^a.Val)
	}
	if a.Op == OpBNot {
		return a.Args[0]
	}
	return tt.mk(&Term{Op: OpBNot, W: a.W, Args: []*Term{a}})
}

func (tt *TermTable) Neg(a *Term) *Term {
	if a.Op == OpConst {
		return tt.Const(a.W, -a.Val)
	}
	if constTree(a) {
		return tt.mapLeaves(a, func(l *Term) *Term { return tt.Const(a.W, -l.Val) })
	}
	return tt.mk(&Term{Op: OpNeg, W: a.W, Args: []*Term{a}})
}

func (tt *TermTable) Zext(a *Term, w int) *Term {
	if w == a.W {
		return a
	}
	if w < a.W {
		return tt.Extract(a, w-1, 0)
	}
	if a.Op == OpConst {
		return tt.Const(w, a.Val)
	}
	if constTree(a) {
		return tt.mapLeaves(a, func(l *Term) *Term { return tt.Const(w, l.Val) })
	}
	if a.Op == OpZext {
		return tt.Zext(a.Args[0], w)
	}
	return tt.mk(&Term{Op: OpZext, W: w, Args: []*Term{a}})
}

func (tt *TermTable) Sext(a *Term, w int) *Term {
	if w == a.W {
		return a
	}
	if w < a.W {
		return tt.Extract(a, w-1, 0)
	}
	if a.Op == OpConst {
		return tt.Const(w, uint64(sx(a.Val, a.W)))
	}
	if constTree(a) {
		return tt.mapLeaves(a, func(l *Term) *Term { return tt.Const(w, uint64(sx(l.Val, a.W))) })
	}
	if a.Op == OpZext {
		// sign bit is known zero
		return tt.Zext(a.Args[0], w)
	}
	return tt.mk(&Term{Op: OpSext, W: w, Args: []*Term{a}})
}

func (tt *TermTable) Extract(a *Term, hi, lo int) *Term {
	w := hi - lo + 1
	if lo == 0 && w == a.W {
		return a
	}
	if a.Op == OpConst {
		return tt.Const(w, a.Val>>uint(lo))
	}
	if constTree(a) {
		return tt.mapLeaves(a, func(l *Term) *Term { return tt.Const(w, l.Val>>uint(lo)) })
	}
	if (a.Op == OpZext || a.Op == OpSext) && lo == 0 {
		x := a.Args[0]
		if w == x.W {
			return x
		}
		if w < x.W {
			return tt.Extract(x, hi, 0)
		}
		if a.Op == OpZext {
			return tt.Zext(x, w)
		}
		return tt.Sext(x, w)
	}
	return tt.mk(&Term{Op: OpExtract, W: w, Args: []*Term{a}, Val: uint64(hi)<<8 | uint64(lo)})
}

func (tt *TermTable) Concat(hi, lo *Term) *Term {
	if hi.Op == OpConst && lo.Op == OpConst {
		return tt.Const(hi.W+lo.W, hi.Val<<uint(lo.W)|lo.Val)
	}
	return tt.mk(&Term{Op: OpConcat, W: hi.W + lo.W, Args: []*Term{hi, lo}})
}

// ---------------------------------------------------------------- printing

func sortName(w int) string {
	if w == 0 {
		return "Bool"
	}
	return fmt.Sprintf("(_ BitVec %d)", w)
}

func constText(t *Term) string {
	if t.W == 0 {
		if t.Val != 0 {
			return "true"
		}
		return "false"
	}
	if t.W%4 == 0 {
		return fmt.Sprintf("#x%0*x", t.W/4, t.Val)
	}
	return fmt.Sprintf("#b%0*b", t.W, t.Val)
}

func smtName(name string) string { return "|" + name + "|" }

// ref returns how a term is referenced from other terms in the SMT text.
func ref(t *Term) string {
	switch t.Op {
	case OpConst:
		return constText(t)
	case OpVar:
		return smtName(t.Name)
	}
	return fmt.Sprintf("t%d", t.ID)
}

// body returns the defining expression of a non-leaf term.
func body(t *Term) string {
	var sb strings.Builder
	switch t.Op {
	case OpUF:
		if len(t.Args) == 0 {
			return smtName(t.Name)
		}
		sb.WriteString("(" + smtName(t.Name))
	case OpZext:
		fmt.Fprintf(&sb, "((_ zero_extend %d)", t.W-t.Args[0].W)
	case OpSext:
		fmt.Fprintf(&sb, "((_ sign_extend %d)", t.W-t.Args[0].W)
	case OpExtract:
		fmt.Fprintf(&sb, "((_ extract %d %d)", t.Val>>8, t.Val&0xff)
	default:
		sb.WriteString("(" + opNames[t.Op])
	}
	for _, a := range t.Args {
		sb.WriteString(" ")
		sb.WriteString(ref(a))
	}
	sb.WriteString(")")
	return sb.String()
}

// String renders a term fully (for debugging / samples); large terms are abbreviated.
func (t *Term) String() string {
	return t.str(6)
}

func (t *Term) str(depth int) string {
	switch t.Op {
	case OpConst:
		if t.W == 0 {
			return constText(t)
		}
		return fmt.Sprintf("%d", t.SignedVal())
	case OpVar:
		return t.Name
	}
	if depth == 0 {
		return fmt.Sprintf("t%d", t.ID)
	}
	var sb strings.Builder
	switch t.Op {
	case OpUF:
		sb.WriteString("(" + t.Name)
	case OpZext:
		sb.WriteString("(zext")
	case OpSext:
		sb.WriteString("(sext")
	case OpExtract:
		fmt.Fprintf(&sb, "(extract[%d:%d]", t.Val>>8, t.Val&0xff)
	default:
		sb.WriteString("(" + opNames[t.Op])
	}
	for _, a := range t.Args {
		sb.WriteString(" ")
		sb.WriteString(a.str(depth - 1))
	}
	sb.WriteString(")")
	return sb.String()
}
