package sym

import (
	"fmt"
	"time"
	"go/constant"
	"go/token"
	"go/types"
	"strings"

	"golang.org/x/tools/go/ssa"
)

func constantBool(c *ssa.Const) bool     { return constant.BoolVal(c.Value) }
func constantString(c *ssa.Const) string { return constant.StringVal(c.Value) }

// ---------------------------------------------------------------- post-dominators

// ipdom returns the immediate post-dominator of each block (nil = function exit).
func (e *Engine) ipdom(fn *ssa.Function) map[*ssa.BasicBlock]*ssa.BasicBlock {
	if m, ok := e.pdomCache[fn]; ok {
		return m
	}
	n := len(fn.Blocks)
	// node n = virtual exit
	succs := make([][]int, n+1)
	for i, b := range fn.Blocks {
		if len(b.Succs) == 0 {
			succs[i] = []int{n}
		}
		for _, s := range b.Succs {
			succs[i] = append(succs[i], s.Index)
		}
	}
	// iterative set-based post-dominators (functions are small)
	full := make([]uint64, (n+64)/64)
	pd := make([][]uint64, n+1)
	for i := 0; i <= n; i++ {
		pd[i] = make([]uint64, len(full))
		if i == n {
			pd[i][n/64] |= 1 << uint(n%64)
		} else {
			for j := range pd[i] {
				pd[i][j] = ^uint64(0)
			}
		}
	}
	changed := true
	for changed {
		changed = false
		for i := n - 1; i >= 0; i-- {
			nw := make([]uint64, len(full))
			for j := range nw {
				nw[j] = ^uint64(0)
			}
			if len(succs[i]) == 0 {
				for j := range nw {
					nw[j] = 0
				}
			}
			for _, s := range succs[i] {
				for j := range nw {
					nw[j] &= pd[s][j]
				}
			}
			nw[i/64] |= 1 << uint(i%64)
			for j := range nw {
				if nw[j] != pd[i][j] {
					changed = true
				}
			}
			pd[i] = nw
		}
	}
	has := func(set []uint64, k int) bool { return set[k/64]&(1<<uint(k%64)) != 0 }
	cnt := func(set []uint64) int {
		c := 0
		for k := 0; k <= n; k++ {
			if has(set, k) {
				c++
			}
		}
		return c
	}
	res := map[*ssa.BasicBlock]*ssa.BasicBlock{}
	for i, b := range fn.Blocks {
		// ipdom = the strict post-dominator with the largest post-dominator set
		best, bestCnt := -1, -1
		for k := 0; k <= n; k++ {
			if k == i || !has(pd[i], k) {
				continue
			}
			c := cnt(pd[k])
			if c > bestCnt {
				best, bestCnt = k, c
			}
		}
		if best >= 0 && best < n {
			res[b] = fn.Blocks[best]
		} else {
			res[b] = nil
		}
	}
	e.pdomCache[fn] = res
	return res
}

func firstNonPhi(b *ssa.BasicBlock) int {
	for i, in := range b.Instrs {
		if _, ok := in.(*ssa.Phi); !ok {
			return i
		}
	}
	return len(b.Instrs)
}

// ---------------------------------------------------------------- run loop

// rpo returns the reverse-postorder index of each block of fn.
func (e *Engine) rpo(fn *ssa.Function) map[*ssa.BasicBlock]int {
	if m, ok := e.rpoCache[fn]; ok {
		return m
	}
	seen := map[*ssa.BasicBlock]bool{}
	var post []*ssa.BasicBlock
	var dfs func(b *ssa.BasicBlock)
	dfs = func(b *ssa.BasicBlock) {
		seen[b] = true
		for _, s := range b.Succs {
			if !seen[s] {
				dfs(s)
			}
		}
		post = append(post, b)
	}
	if len(fn.Blocks) > 0 {
		dfs(fn.Blocks[0])
	}
	m := map[*ssa.BasicBlock]int{}
	for i, b := range post {
		m[b] = len(post) - 1 - i
	}
	for _, b := range fn.Blocks {
		if _, ok := m[b]; !ok {
			m[b] = len(post) + b.Index
		}
	}
	e.rpoCache[fn] = m
	return m
}

// exploreFrame explores the top frame of init (and everything it calls) until
// every state has returned from it, died or finished.  States are advanced one
// basic block at a time in reverse-postorder, and states that meet at the same
// program point are merged (ite on values), so reconverging control flow does
// not multiply paths.  The returned states are positioned in the caller.
func (e *Engine) exploreFrame(init *State) []*State {
	depth := len(init.frames)
	fn := init.top().fn
	rpo := e.rpo(fn)
	key := func(s *State) (int, int) {
		f := s.frames[depth-1]
		return rpo[f.block], f.ip
	}
	pending := []*State{init}
	var returned []*State
	for len(pending) > 0 {
		bi := 0
		bk, bip := key(pending[0])
		for i := 1; i < len(pending); i++ {
			k, ip := key(pending[i])
			if k < bk || (k == bk && ip < bip) {
				bi, bk, bip = i, k, ip
			}
		}
		s := pending[bi]
		pending = append(pending[:bi], pending[bi+1:]...)
		if !e.NoMerge && len(pending) > 0 {
			// merge every pending state at the same program point into s
			var rest []*State
			for _, o := range pending {
				k, ip := key(o)
				if k == bk && ip == bip && len(o.frames) == depth {
					if m, ok := e.merge2(s, o); ok {
						if e.Trace {
							fmt.Printf("   merged s%d into s%d at block %d\n", o.id, s.id, s.frames[depth-1].block.Index)
						}
						s = m
						e.Stats.Merges++
						continue
					}
					if e.Trace {
						fmt.Printf("   merge of s%d into s%d FAILED at block %d\n", o.id, s.id, s.frames[depth-1].block.Index)
					}
					e.Stats.MergeFails++
				}
				rest = append(rest, o)
			}
			pending = rest
		}
	inner:
		for !s.done {
			if len(s.frames) < depth {
				returned = append(returned, s)
				break
			}
			if len(s.frames) > depth {
				rs := e.exploreFrame(s)
				switch len(rs) {
				case 0:
					break inner
				case 1:
					s = rs[0]
					continue
				default:
					pending = append(pending, rs...)
					break inner
				}
			}
			e.Stats.Steps++
			if e.Stats.Steps > e.MaxSteps || (e.Stats.Steps%256 == 0 && !e.Deadline.IsZero() && time.Now().After(e.Deadline)) {
				e.addEvent(Event{Kind: "budget", Label: "step or time budget of the job exhausted"})
				e.MaxSteps = 0
				return nil
			}
			f := s.top()
			instr := f.block.Instrs[f.ip]
			if e.Trace {
				fmt.Printf("[s%d d%d] %s: %s\n", s.id, len(s.frames), f.fn.Name(), instr)
			}
			switch in := instr.(type) {
			case *ssa.Jump:
				e.jump(s, in.Block().Succs[0])
				if len(pending) > 0 {
					pending = append(pending, s)
					break inner
				}
			case *ssa.If:
				succ := e.execIf(s, in)
				if len(succ) == 1 && len(pending) == 0 {
					s = succ[0]
					continue
				}
				pending = append(pending, succ...)
				break inner
			default:
				succ, multi := e.exec(s, instr)
				if multi {
					pending = append(pending, succ...)
					break inner
				}
			}
		}
	}
	if len(returned) <= 1 || e.NoMerge {
		return returned
	}
	out := e.mergeStates(returned)
	if len(out) > 1 {
		var live []*State
		for _, m := range out {
			if e.feasible(m, e.TT.True) {
				live = append(live, m)
			}
		}
		out = live
	}
	return out
}

// Run executes fn(args) to completion from base state st.
func (e *Engine) Run(st *State, fn *ssa.Function, args []Value) {
	e.pushFrame(st, fn, args, nil, nil, false)
	e.exploreFrame(st)
}

func (e *Engine) pushFrame(st *State, fn *ssa.Function, args []Value, bind []Value, call ssa.CallInstruction, discard bool) {
	if len(fn.Blocks) == 0 {
		e.fail("call of function without body: %s", fn)
	}
	if len(st.frames) > 200 {
		e.fail("call stack too deep at %s", fn)
	}
	e.Encoded[fn.String()] = true
	f := &Frame{owner: st.id, fn: fn, block: fn.Blocks[0], regs: make(map[ssa.Value]Value, 32), bind: bind, call: call, discard: discard,
		visits: map[*ssa.BasicBlock]int{}}
	if len(args) != len(fn.Params) {
		e.fail("arity mismatch calling %s: %d args for %d params", fn, len(args), len(fn.Params))
	}
	for i, p := range fn.Params {
		f.regs[p] = args[i]
	}
	st.frames = append(st.frames, f)
}

func (e *Engine) advance(st *State) { st.wframe().ip++ }

func (e *Engine) jump(st *State, to *ssa.BasicBlock) {
	f := st.wframe()
	from := f.block
	f.visits[to]++
	if f.visits[to] > e.MaxVisits {
		e.addEvent(Event{Kind: "unwind", Label: "loop unwinding bound exceeded", Pos: f.fn.String()})
		st.done = true
		return
	}
	// evaluate phis simultaneously
	np := firstNonPhi(to)
	if np > 0 {
		idx := -1
		for i, p := range to.Preds {
			if p == from {
				idx = i
				break
			}
		}
		if idx < 0 {
			e.fail("jump: predecessor not found")
		}
		vals := make([]Value, np)
		for i := 0; i < np; i++ {
			vals[i] = e.get(st, to.Instrs[i].(*ssa.Phi).Edges[idx])
		}
		for i := 0; i < np; i++ {
			f.regs[to.Instrs[i].(*ssa.Phi)] = vals[i]
		}
	}
	f.prev = from
	f.block = to
	f.ip = np
}

func (e *Engine) exec(st *State, instr ssa.Instruction) ([]*State, bool) {
	tt := e.TT
	switch in := instr.(type) {
	case *ssa.DebugRef:
		e.advance(st)
	case *ssa.Alloc:
		id := e.alloc(st, e.zero(in.Type().(*types.Pointer).Elem()))
		e.set(st, in, PtrV{Obj: id})
		e.advance(st)
	case *ssa.BinOp:
		v, ok := e.binop(st, in)
		if !ok {
			return nil, false
		}
		e.set(st, in, v)
		e.advance(st)
	case *ssa.UnOp:
		return e.unop(st, in)
	case *ssa.Phi:
		e.fail("phi executed directly")
	case *ssa.Jump:
		e.jump(st, in.Block().Succs[0])
	case *ssa.If:
		succ := e.execIf(st, in)
		return succ, true
	case *ssa.Return:
		e.doReturn(st, in)
	case *ssa.Call:
		return e.doCall(st, in)
	case *ssa.Defer:
		e.doDefer(st, in)
		e.advance(st)
	case *ssa.RunDefers:
		f := st.wframe()
		if len(f.defers) == 0 {
			f.ip++
			break
		}
		d := f.defers[len(f.defers)-1]
		f.defers = f.defers[:len(f.defers)-1]
		return e.invoke(st, nil, d.fn, d.args, true)
	case *ssa.Panic:
		v := e.get(st, in.X)
		e.reportPanic(st, in.Pos(), "explicit panic: "+describe(v), tt.True)
		st.done = true
	case *ssa.Store:
		p := e.get(st, in.Addr)
		pv, ok := p.(PtrV)
		if !ok {
			e.fail("store through %T", p)
		}
		if pv.Obj == -1 {
			e.reportPanic(st, in.Pos(), "nil pointer dereference (store)", tt.True)
			st.done = true
			break
		}
		e.store(st, pv, e.get(st, in.Val))
		e.advance(st)
	case *ssa.FieldAddr:
		p := e.get(st, in.X).(PtrV)
		if p.Obj == -1 {
			e.reportPanic(st, in.Pos(), "nil pointer dereference (field address)", tt.True)
			st.done = true
			break
		}
		np := PtrV{Obj: p.Obj, Path: append(append([]PathEl(nil), p.Path...), PathEl{I: in.Field})}
		e.set(st, in, np)
		e.advance(st)
	case *ssa.Field:
		s := e.get(st, in.X).(StructV)
		e.set(st, in, s.F[in.Field])
		e.advance(st)
	case *ssa.IndexAddr:
		return e.indexAddr(st, in)
	case *ssa.Index:
		return e.index(st, in)
	case *ssa.Lookup:
		return e.lookup(st, in)
	case *ssa.Slice:
		return e.sliceOp(st, in)
	case *ssa.MakeSlice:
		return e.makeSlice(st, in)
	case *ssa.MakeMap:
		e.set(st, in, MapV{Obj: e.allocMap(st)})
		e.advance(st)
	case *ssa.MapUpdate:
		e.mapUpdate(st, in)
	case *ssa.MakeInterface:
		e.set(st, in, IfaceV{T: in.X.Type(), V: e.get(st, in.X)})
		e.advance(st)
	case *ssa.ChangeInterface:
		e.set(st, in, e.get(st, in.X))
		e.advance(st)
	case *ssa.ChangeType:
		e.set(st, in, e.get(st, in.X))
		e.advance(st)
	case *ssa.Convert:
		// string([]byte) of a symbolic-length slice: one state per feasible length
		if sv, ok := e.get(st, in.X).(SliceV); ok && sv.LenT != nil {
			if _, isReg := st.top().regs[in.X]; isReg {
				return e.concretizeSliceLen(st, in.X, sv)
			}
		}
		e.set(st, in, e.convert(st, in))
		e.advance(st)
	case *ssa.MakeClosure:
		b := make([]Value, len(in.Bindings))
		for i, x := range in.Bindings {
			b[i] = e.get(st, x)
		}
		e.set(st, in, FuncV{Fn: in.Fn.(*ssa.Function), Bind: b})
		e.advance(st)
	case *ssa.TypeAssert:
		e.typeAssert(st, in)
	case *ssa.Extract:
		t := e.get(st, in.Tuple).(TupleV)
		e.set(st, in, t.E[in.Index])
		e.advance(st)
	case *ssa.Range:
		e.rangeOp(st, in)
	case *ssa.Next:
		e.nextOp(st, in)
	case *ssa.SliceToArrayPointer:
		s := e.get(st, in.X).(SliceV)
		e.set(st, in, PtrV{Obj: s.Arr, Path: nil})
		if s.Off != 0 {
			e.fail("SliceToArrayPointer with offset")
		}
		e.advance(st)
	default:
		e.fail("unsupported instruction %T: %s in %s", instr, instr, st.top().fn)
	}
	return nil, false
}

// ---------------------------------------------------------------- If + scopes

// execIf returns the successor states of a conditional branch (1 or 2; 0 if infeasible).
func (e *Engine) execIf(st *State, in *ssa.If) []*State {
	tt := e.TT
	c := e.get(st, in.Cond).(*Term)
	blk := in.Block()
	if c.Op == OpConst {
		if c.Val != 0 {
			e.jump(st, blk.Succs[0])
		} else {
			e.jump(st, blk.Succs[1])
		}
		return []*State{st}
	}
	ft, ff := true, true
	if e.EagerFeas || st.top().visits[blk] > 1 {
		ft = e.feasible(st, c)
		ff = e.feasible(st, tt.Not(c))
	} else {
		// lazy: decide syntactically from the path condition only; an infeasible
		// side is explored too and disappears in the merge (its condition is false)
		nc := tt.Not(c)
		for _, p := range st.pc {
			if p == c {
				ff = false
			} else if p == nc {
				ft = false
			}
		}
	}
	switch {
	case ft && !ff:
		e.jump(st, blk.Succs[0])
		return []*State{st}
	case !ft && ff:
		e.jump(st, blk.Succs[1])
		return []*State{st}
	case !ft && !ff:
		st.done = true
		return nil
	}
	e.Stats.Forks++
	if e.ForkSites != nil {
		e.ForkSites[e.posOf(st, in.Cond.Pos())+" "+st.top().fn.Name()]++
	}
	other := e.Clone(st)
	st.addPC(c)
	e.jump(st, blk.Succs[0])
	other.addPC(tt.Not(c))
	e.jump(other, blk.Succs[1])
	return []*State{st, other}
}

// ---------------------------------------------------------------- calls

func (e *Engine) setResult(st *State, call ssa.CallInstruction, v Value) {
	if call == nil {
		return
	}
	if val, ok := call.(ssa.Value); ok {
		e.set(st, val, v)
	}
}

func fnKeys(fn *ssa.Function) []string {
	keys := []string{fn.String()}
	if o := fn.Origin(); o != nil {
		keys = append(keys, o.String())
	}
	return keys
}

func (e *Engine) doCall(st *State, in ssa.CallInstruction) ([]*State, bool) {
	common := in.Common()
	args := make([]Value, 0, len(common.Args)+1)
	var fv FuncV
	if common.IsInvoke() {
		recv, ok := e.get(st, common.Value).(IfaceV)
		if !ok {
			e.fail("invoke on %T", e.get(st, common.Value))
		}
		if recv.T == nil {
			e.reportPanic(st, in.Pos(), "nil interface method call "+common.Method.Name(), e.TT.True)
			st.done = true
			return nil, false
		}
		fn := e.lookupMethod(recv.T, common.Method)
		if fn == nil {
			e.fail("method %s not found on %v", common.Method.Name(), recv.T)
		}
		fv = FuncV{Fn: fn}
		args = append(args, recv.V)
	} else {
		switch v := common.Value.(type) {
		case *ssa.Builtin:
			for _, a := range common.Args {
				args = append(args, e.get(st, a))
			}
			return e.builtin(st, in, v.Name(), args)
		case *ssa.Function:
			fv = FuncV{Fn: v}
		default:
			x := e.get(st, v)
			f, ok := x.(FuncV)
			if !ok {
				e.fail("call of %T", x)
			}
			if f.Fn == nil {
				e.reportPanic(st, in.Pos(), "call of nil func", e.TT.True)
				st.done = true
				return nil, false
			}
			fv = f
		}
	}
	for _, a := range common.Args {
		args = append(args, e.get(st, a))
	}
	return e.invoke(st, in, fv, args, false)
}

func (e *Engine) lookupMethod(t types.Type, m *types.Func) *ssa.Function {
	ms := e.Prog.MethodSets.MethodSet(t)
	sel := ms.Lookup(m.Pkg(), m.Name())
	if sel == nil {
		return nil
	}
	return e.Prog.MethodValue(sel)
}

// invoke calls fv with args.  call==nil && discard: deferred call.
func (e *Engine) invoke(st *State, call ssa.CallInstruction, fv FuncV, args []Value, discard bool) ([]*State, bool) {
	fn := fv.Fn
	if e.RedirectMatch != nil {
		if tgt := e.RedirectMatch(fn.String()); tgt != "" {
			if r := e.RedirectPkg.Func(tgt); r != nil {
				e.Redirects[fn.String()] = r
			}
		}
	}
	for _, k := range fnKeys(fn) {
		if r, ok := e.Redirects[k]; ok {
			e.StubsUsed["redirect:"+k]++
			e.pushFrame(st, r, args, nil, call, discard)
			return nil, false
		}
	}
	if nm := fn.Name(); strings.HasPrefix(nm, VerifPrefix) {
		if o := fn.Origin(); o != nil {
			nm = o.Name()
		}
		if intr := e.verifIntrinsic(nm); intr != nil {
			e.Intrinsics[fn.String()] = intr
		}
	}
	for _, k := range fnKeys(fn) {
		if intr, ok := e.Intrinsics[k]; ok {
			e.StubsUsed[k]++
			var c ssa.CallInstruction = call
			if discard {
				c = nil
			}
			succ := intr(e, st, c, args)
			if succ != nil {
				for _, s := range succ {
					if !s.done && !discard {
						s.wframe().ip++
					}
				}
				return succ, true
			}
			if !st.done && !discard {
				e.advance(st)
			}
			return nil, false
		}
	}
	if e.OpaquePkgs != nil && fn.Pkg != nil && e.OpaquePkgs[fn.Pkg.Pkg.Path()] {
		e.StubsUsed["opaque:"+fn.Pkg.Pkg.Path()]++
		if !discard {
			if call != nil && call.Value() != nil {
				e.setResult(st, call, e.zero(call.Value().Type()))
			}
			e.advance(st)
		}
		return nil, false
	}
	if len(fn.Blocks) == 0 {
		e.fail("no body and no intrinsic for %s (called from %s)", fn, st.top().fn)
	}
	e.pushFrame(st, fn, args, fv.Bind, call, discard)
	return nil, false
}

func (e *Engine) doReturn(st *State, in *ssa.Return) {
	var res Value
	switch len(in.Results) {
	case 0:
	case 1:
		res = e.get(st, in.Results[0])
	default:
		t := make([]Value, len(in.Results))
		for i, r := range in.Results {
			t[i] = e.get(st, r)
		}
		res = TupleV{E: t}
	}
	f := st.top()
	st.frames = st.frames[:len(st.frames)-1]
	if len(st.frames) == 0 {
		st.done = true
		st.retVal = res
		e.Stats.Paths++
		if e.RecordEvents {
			e.Traces = append(e.Traces, append([]SyncEvent(nil), st.events...))
		}
		return
	}
	if f.discard {
		return // caller re-executes RunDefers
	}
	e.setResult(st, f.call, res)
	e.advance(st)
}

func (e *Engine) doDefer(st *State, in *ssa.Defer) {
	common := in.Common()
	var d deferred
	var args []Value
	if common.IsInvoke() {
		recv := e.get(st, common.Value).(IfaceV)
		if recv.T == nil {
			e.fail("defer on nil interface")
		}
		d.fn = FuncV{Fn: e.lookupMethod(recv.T, common.Method)}
		args = append(args, recv.V)
	} else {
		switch v := common.Value.(type) {
		case *ssa.Builtin:
			e.fail("defer of builtin %s", v.Name())
		case *ssa.Function:
			d.fn = FuncV{Fn: v}
		default:
			d.fn = e.get(st, v).(FuncV)
		}
	}
	for _, a := range common.Args {
		args = append(args, e.get(st, a))
	}
	d.args = args
	f := st.wframe()
	f.defers = append(f.defers, d)
}

// ---------------------------------------------------------------- unary / binary

func (e *Engine) unop(st *State, in *ssa.UnOp) ([]*State, bool) {
	tt := e.TT
	x := e.get(st, in.X)
	switch in.Op {
	case token.MUL:
		p, ok := x.(PtrV)
		if !ok {
			e.fail("load through %T", x)
		}
		if p.Obj == -1 {
			e.reportPanic(st, in.Pos(), "nil pointer dereference", tt.True)
			st.done = true
			return nil, false
		}
		e.set(st, in, e.load(st, p))
	case token.NOT:
		e.set(st, in, tt.Not(x.(*Term)))
	case token.SUB:
		if f, ok := x.(FloatV); ok {
			e.set(st, in, FloatV{-f.F})
		} else {
			e.set(st, in, tt.Neg(x.(*Term)))
		}
	case token.XOR:
		e.set(st, in, tt.BNot(x.(*Term)))
	default:
		e.fail("unsupported unop %v", in.Op)
	}
	e.advance(st)
	return nil, false
}

func (e *Engine) binop(st *State, in *ssa.BinOp) (Value, bool) {
	tt := e.TT
	x := e.get(st, in.X)
	y := e.get(st, in.Y)
	switch in.Op {
	case token.EQL:
		return e.valueEq(x, y), true
	case token.NEQ:
		return tt.Not(e.valueEq(x, y)), true
	}
	switch a := x.(type) {
	case StrV:
		b := y.(StrV)
		switch in.Op {
		case token.ADD:
			return StrV{B: append(append([]*Term(nil), a.B...), b.B...)}, true
		case token.LSS:
			return e.strLess(a, b), true
		case token.GTR:
			return e.strLess(b, a), true
		case token.LEQ:
			return tt.Not(e.strLess(b, a)), true
		case token.GEQ:
			return tt.Not(e.strLess(a, b)), true
		}
	case FloatV:
		b := y.(FloatV)
		switch in.Op {
		case token.ADD:
			return FloatV{a.F + b.F}, true
		case token.SUB:
			return FloatV{a.F - b.F}, true
		case token.MUL:
			return FloatV{a.F * b.F}, true
		case token.QUO:
			return FloatV{a.F / b.F}, true
		case token.LSS:
			return tt.Bool(a.F < b.F), true
		case token.GTR:
			return tt.Bool(a.F > b.F), true
		case token.LEQ:
			return tt.Bool(a.F <= b.F), true
		case token.GEQ:
			return tt.Bool(a.F >= b.F), true
		}
	case *Term:
		b := y.(*Term)
		_, signed, _ := intInfo(in.X.Type())
		if a.W == 0 {
			switch in.Op {
			case token.AND, token.LAND:
				return tt.And(a, b), true
			case token.OR, token.LOR:
				return tt.Or(a, b), true
			}
			e.fail("bool binop %v", in.Op)
		}
		switch in.Op {
		case token.ADD:
			return tt.Bin(OpAdd, a, b), true
		case token.SUB:
			return tt.Bin(OpSub, a, b), true
		case token.MUL:
			return tt.Bin(OpMul, a, b), true
		case token.QUO, token.REM:
			if !e.reportPanic(st, in.Pos(), "integer divide by zero", tt.Eq(b, tt.Const(b.W, 0))) {
				return nil, false
			}
			op := OpUDiv
			if in.Op == token.REM {
				op = OpURem
			}
			if signed {
				op = OpSDiv
				if in.Op == token.REM {
					op = OpSRem
				}
			}
			return tt.Bin(op, a, b), true
		case token.AND:
			return tt.Bin(OpBAnd, a, b), true
		case token.OR:
			return tt.Bin(OpBOr, a, b), true
		case token.XOR:
			return tt.Bin(OpBXor, a, b), true
		case token.AND_NOT:
			return tt.Bin(OpBAnd, a, tt.BNot(b)), true
		case token.SHL, token.SHR:
			_, ysigned, _ := intInfo(in.Y.Type())
			if ysigned {
				if !e.reportPanic(st, in.Pos(), "negative shift amount", tt.Cmp(OpSlt, b, tt.Const(b.W, 0))) {
					return nil, false
				}
			}
			// bring the count to the width of a
			var cnt *Term
			var big *Term = tt.False
			if b.W > a.W {
				big = tt.Cmp(OpUle, tt.Const(b.W, uint64(a.W)), b)
				cnt = tt.Extract(b, a.W-1, 0)
			} else {
				cnt = tt.Zext(b, a.W)
			}
			var r *Term
			if in.Op == token.SHL {
				r = tt.Bin(OpShl, a, cnt)
				r = tt.Ite(big, tt.Const(a.W, 0), r)
			} else if signed {
				r = tt.Bin(OpAshr, a, cnt)
				r = tt.Ite(big, tt.Bin(OpAshr, a, tt.Const(a.W, uint64(a.W-1))), r)
			} else {
				r = tt.Bin(OpLshr, a, cnt)
				r = tt.Ite(big, tt.Const(a.W, 0), r)
			}
			return r, true
		case token.LSS, token.LEQ, token.GTR, token.GEQ:
			lt, le := OpUlt, OpUle
			if signed {
				lt, le = OpSlt, OpSle
			}
			switch in.Op {
			case token.LSS:
				return tt.Cmp(lt, a, b), true
			case token.LEQ:
				return tt.Cmp(le, a, b), true
			case token.GTR:
				return tt.Cmp(lt, b, a), true
			case token.GEQ:
				return tt.Cmp(le, b, a), true
			}
		}
	}
	e.fail("unsupported binop %v on %T", in.Op, x)
	return nil, false
}

func (e *Engine) convert(st *State, in *ssa.Convert) Value {
	tt := e.TT
	x := e.get(st, in.X)
	from, to := in.X.Type(), in.Type()
	if fw, fsigned, ok := intInfo(from); ok && fw > 0 {
		t := x.(*Term)
		if tw, _, ok := intInfo(to); ok && tw > 0 {
			if tw <= fw {
				return tt.Extract(t, tw-1, 0)
			}
			if fsigned {
				return tt.Sext(t, tw)
			}
			return tt.Zext(t, tw)
		}
		if isFloat(to) {
			if t.Op != OpConst {
				e.fail("int->float conversion of symbolic value")
			}
			if fsigned {
				return FloatV{float64(t.SignedVal())}
			}
			return FloatV{float64(t.Val)}
		}
		if isString(to) {
			// string(rune)
			if t.Op == OpConst {
				return e.ConcreteStr(string(rune(t.SignedVal())))
			}
			if s, ok := valueSet(t, 0); ok && s[2] == 0 && s[3] == 0 {
				return StrV{B: []*Term{tt.Extract(t, 7, 0)}}
			}
			e.fail("string(rune) of symbolic non-ASCII value")
		}
	}
	if f, ok := x.(FloatV); ok {
		if tw, tsigned, ok := intInfo(to); ok && tw > 0 {
			if tsigned {
				return tt.Const(tw, uint64(int64(f.F)))
			}
			return tt.Const(tw, uint64(f.F))
		}
		if isFloat(to) {
			return f
		}
	}
	if isString(from) {
		s := x.(StrV)
		if isString(to) {
			return s
		}
		if sl, ok := to.Underlying().(*types.Slice); ok {
			if w, _, _ := intInfo(sl.Elem()); w == 8 {
				el := make([]Value, len(s.B))
				for i, b := range s.B {
					el[i] = b
				}
				return e.newSlice(st, el, len(el), tt.Const(8, 0))
			}
		}
	}
	if sl, ok := from.Underlying().(*types.Slice); ok && isString(to) {
		if w, _, _ := intInfo(sl.Elem()); w == 8 {
			sv := x.(SliceV)
			if sv.LenT != nil {
				e.fail("string([]byte) of symbolic-length slice")
			}
			el := e.sliceElems(st, sv)
			b := make([]*Term, len(el))
			for i, v := range el {
				b[i] = v.(*Term)
			}
			return StrV{B: b}
		}
	}
	if _, ok := from.Underlying().(*types.Pointer); ok {
		return x
	}
	if b, ok := to.Underlying().(*types.Basic); ok && b.Kind() == types.UnsafePointer {
		return x
	}
	e.fail("unsupported conversion %v -> %v", from, to)
	return nil
}

func (e *Engine) typeAssert(st *State, in *ssa.TypeAssert) {
	tt := e.TT
	x := e.get(st, in.X).(IfaceV)
	ok := false
	var res Value
	if x.T != nil {
		if it, isI := in.AssertedType.Underlying().(*types.Interface); isI {
			ok = types.Implements(x.T, it)
			if ok {
				res = x
			}
		} else {
			ok = types.Identical(x.T, in.AssertedType)
			if ok {
				res = x.V
			}
		}
	}
	if in.CommaOk {
		if !ok {
			res = e.zero(in.AssertedType)
		}
		e.set(st, in, TupleV{E: []Value{res, tt.Bool(ok)}})
		e.advance(st)
		return
	}
	if !ok {
		e.reportPanic(st, in.Pos(), fmt.Sprintf("interface conversion: %v is not %v", x.T, in.AssertedType), tt.True)
		st.done = true
		return
	}
	e.set(st, in, res)
	e.advance(st)
}

// ---------------------------------------------------------------- concretisation

// concretizeReg forks st so that register v holds a constant in each child.
// The current instruction is re-executed in every child.
func (e *Engine) concretizeReg(st *State, v ssa.Value, t *Term, what string) ([]*State, bool) {
	tt := e.TT
	var cands []uint64
	if leaves, ok := ConstLeaves(t); ok {
		cands = leaves
	} else {
		// enumerate by solver
		var excl []*Term
		for len(cands) < 64 {
			r, m := e.Solver.Check(st.pc, excl, []*Term{t})
			if r != Sat {
				if r == Unknown {
					e.addEvent(Event{Kind: "unknown", Label: "concretisation: solver unknown", Pos: what})
				}
				break
			}
			val := m[t]
			cands = append(cands, val)
			excl = append(excl, tt.Not(tt.Eq(t, tt.Const(t.W, val))))
		}
		if len(cands) == 64 {
			e.addEvent(Event{Kind: "unwind", Label: "concretisation fan-out exceeded 64", Pos: what})
		}
	}
	var out []*State
	for _, c := range cands {
		k := tt.Const(t.W, c)
		cond := tt.Eq(t, k)
		if !e.feasible(st, cond) {
			continue
		}
		ch := e.Clone(st)
		e.addHardPC(ch, cond)
		ch.wframe().regs[v] = k
		out = append(out, ch)
	}
	st.done = true // replaced by children
	e.Stats.Forks += len(out)
	return out, true
}

// concretizeSliceLen forks over the possible lengths of a symbolic-length slice held in register v.
func (e *Engine) concretizeSliceLen(st *State, v ssa.Value, s SliceV) ([]*State, bool) {
	tt := e.TT
	var out []*State
	for n := 0; n <= s.Len; n++ {
		cond := tt.Eq(s.LenT, tt.Int(int64(n)))
		if !e.feasible(st, cond) {
			continue
		}
		ch := e.Clone(st)
		e.addHardPC(ch, cond)
		ns := s
		ns.Len = n
		ns.LenT = nil
		ch.wframe().regs[v] = ns
		out = append(out, ch)
	}
	st.done = true
	e.Stats.Forks += len(out)
	return out, true
}

// intArg returns the operand as a concrete int, or forks to make it so.
func (e *Engine) intArg(st *State, v ssa.Value, what string) (int, []*State, bool) {
	t := e.get(st, v).(*Term)
	if t.Op == OpConst {
		return int(t.SignedVal()), nil, false
	}
	if _, isReg := st.top().regs[v]; !isReg {
		e.fail("symbolic non-register operand")
	}
	succ, _ := e.concretizeReg(st, v, t, what)
	return 0, succ, true
}

// ---------------------------------------------------------------- indexing

func (e *Engine) indexAddr(st *State, in *ssa.IndexAddr) ([]*State, bool) {
	tt := e.TT
	x := e.get(st, in.X)
	idx := e.get(st, in.Index).(*Term)
	idx = e.toInt64(idx, in.Index.Type())
	if idx.Op != OpConst {
		// a symbolic index is kept only over scalar elements; otherwise fork on its value
		var elemT types.Type
		switch u := in.X.Type().Underlying().(type) {
		case *types.Slice:
			elemT = u.Elem()
		case *types.Pointer:
			elemT = u.Elem().Underlying().(*types.Array).Elem()
		}
		_, isBasic := elemT.Underlying().(*types.Basic)
		if isBasic && isString(elemT) {
			isBasic = false // strings change length under later stores: always split on the index
		}
		if isBasic {
			// strings of different lengths cannot be selected by an ite either
			if sv, ok := x.(SliceV); ok && sv.Arr != -1 {
				arr := e.obj(st, sv.Arr).Val.(ArrayV)
				hi := sv.Off + sv.Len
				if hi > len(arr.E) {
					hi = len(arr.E)
				}
				isBasic = uniformShape(arr.E[sv.Off:hi])
			}
		}
		if !isBasic {
			if _, isReg := st.top().regs[in.Index]; isReg {
				return e.concretizeReg(st, in.Index, e.get(st, in.Index).(*Term), "index")
			}
		}
	}
	switch c := x.(type) {
	case SliceV:
		var lenT *Term = tt.Int(int64(c.Len))
		if c.LenT != nil {
			lenT = c.LenT
		}
		viol := tt.Or(tt.Cmp(OpSlt, idx, tt.Int(0)), tt.Cmp(OpSle, lenT, idx))
		if !e.reportPanic(st, in.Pos(), "index out of range", viol) {
			return nil, false
		}
		if idx.Op == OpConst {
			e.set(st, in, PtrV{Obj: c.Arr, Path: []PathEl{{I: c.Off + int(idx.SignedVal())}}})
		} else {
			e.set(st, in, PtrV{Obj: c.Arr, Path: []PathEl{{T: tt.Bin(OpAdd, idx, tt.Int(int64(c.Off)))}}})
		}
	case PtrV:
		if c.Obj == -1 {
			e.reportPanic(st, in.Pos(), "nil pointer dereference (index)", tt.True)
			st.done = true
			return nil, false
		}
		arr := in.X.Type().Underlying().(*types.Pointer).Elem().Underlying().(*types.Array)
		viol := tt.Or(tt.Cmp(OpSlt, idx, tt.Int(0)), tt.Cmp(OpSle, tt.Int(arr.Len()), idx))
		if !e.reportPanic(st, in.Pos(), "index out of range", viol) {
			return nil, false
		}
		pe := PathEl{T: idx}
		if idx.Op == OpConst {
			pe = PathEl{I: int(idx.SignedVal())}
		}
		e.set(st, in, PtrV{Obj: c.Obj, Path: append(append([]PathEl(nil), c.Path...), pe)})
	default:
		e.fail("IndexAddr on %T", x)
	}
	e.advance(st)
	return nil, false
}

func (e *Engine) toInt64(t *Term, typ types.Type) *Term {
	if t.W == 64 {
		return t
	}
	_, signed, _ := intInfo(typ)
	if signed {
		return e.TT.Sext(t, 64)
	}
	return e.TT.Zext(t, 64)
}

// selectByte returns s[idx] for a symbolic idx known to be in range.
func (e *Engine) selectTerm(elems []*Term, idx *Term) *Term {
	tt := e.TT
	if idx.Op == OpConst {
		return elems[int(idx.SignedVal())]
	}
	res := elems[len(elems)-1]
	for i := len(elems) - 2; i >= 0; i-- {
		res = tt.Ite(tt.Eq(idx, tt.Int(int64(i))), elems[i], res)
	}
	return res
}

func (e *Engine) index(st *State, in *ssa.Index) ([]*State, bool) {
	tt := e.TT
	x := e.get(st, in.X)
	idx := e.toInt64(e.get(st, in.Index).(*Term), in.Index.Type())
	switch c := x.(type) {
	case StrV:
		viol := tt.Or(tt.Cmp(OpSlt, idx, tt.Int(0)), tt.Cmp(OpSle, tt.Int(int64(len(c.B))), idx))
		if !e.reportPanic(st, in.Pos(), "string index out of range", viol) {
			return nil, false
		}
		e.set(st, in, e.selectTerm(c.B, idx))
	case ArrayV:
		viol := tt.Or(tt.Cmp(OpSlt, idx, tt.Int(0)), tt.Cmp(OpSle, tt.Int(int64(len(c.E))), idx))
		if !e.reportPanic(st, in.Pos(), "index out of range", viol) {
			return nil, false
		}
		if idx.Op == OpConst {
			e.set(st, in, c.E[int(idx.SignedVal())])
		} else {
			e.set(st, in, e.getPath(st, c, []PathEl{{T: idx}}))
		}
	default:
		e.fail("Index on %T", x)
	}
	e.advance(st)
	return nil, false
}

// ---------------------------------------------------------------- maps

// mapFind returns, for key k, the equality term with each entry (newest last).
func (e *Engine) mapEq(o *Obj, k Value) []*Term {
	eqs := make([]*Term, len(o.Keys))
	for i, kk := range o.Keys {
		eqs[i] = e.valueEq(kk, k)
	}
	return eqs
}

func (e *Engine) lookup(st *State, in *ssa.Lookup) ([]*State, bool) {
	tt := e.TT
	x := e.get(st, in.X)
	if s, ok := x.(StrV); ok {
		// string indexing
		idx := e.toInt64(e.get(st, in.Index).(*Term), in.Index.Type())
		viol := tt.Or(tt.Cmp(OpSlt, idx, tt.Int(0)), tt.Cmp(OpSle, tt.Int(int64(len(s.B))), idx))
		if !e.reportPanic(st, in.Pos(), "string index out of range", viol) {
			return nil, false
		}
		e.set(st, in, e.selectTerm(s.B, idx))
		e.advance(st)
		return nil, false
	}
	m := x.(MapV)
	k := e.get(st, in.Index)
	elemT := in.X.Type().Underlying().(*types.Map).Elem()
	zero := e.zero(elemT)
	finish := func(s *State, v Value, ok *Term) {
		if in.CommaOk {
			e.set(s, in, TupleV{E: []Value{v, ok}})
		} else {
			e.set(s, in, v)
		}
		e.advance(s)
	}
	if m.Obj == -1 {
		finish(st, zero, tt.False)
		return nil, false
	}
	e.recordAccess(st, "read", m.Obj, nil)
	o := e.obj(st, m.Obj)
	eqs := e.mapEq(o, k)
	// newest entry wins: scan from the end
	// try an ite-merge first
	res := zero
	okT := tt.False
	mergeable := true
	for i := 0; i < len(eqs); i++ {
		if eqs[i] == tt.False {
			continue
		}
		v, ok := e.mergeValue(eqs[i], o.Vals[i], res)
		if !ok {
			mergeable = false
			break
		}
		res = v
		okT = tt.Or(okT, eqs[i])
	}
	if mergeable {
		finish(st, res, okT)
		return nil, false
	}
	// fork: entry i is the newest match, or no match
	var out []*State
	var newer []*Term
	for i := len(eqs) - 1; i >= 0; i-- {
		if eqs[i] == tt.False {
			continue
		}
		cond := tt.And(append([]*Term{eqs[i]}, newer...)...)
		if e.feasible(st, cond) {
			ch := e.Clone(st)
			ch.addPC(cond)
			finish(ch, o.Vals[i], tt.True)
			out = append(out, ch)
		}
		newer = append(newer, tt.Not(eqs[i]))
		if eqs[i] == tt.True {
			break
		}
	}
	if len(eqs) == 0 || eqs[len(eqs)-1] != tt.True {
		none := tt.And(newer...)
		certain := false
		for _, q := range eqs {
			if q == tt.True {
				certain = true
			}
		}
		if !certain && e.feasible(st, none) {
			ch := e.Clone(st)
			ch.addPC(none)
			finish(ch, zero, tt.False)
			out = append(out, ch)
		}
	}
	st.done = true
	e.Stats.Forks += len(out)
	return out, true
}

func (e *Engine) mapUpdate(st *State, in *ssa.MapUpdate) {
	m := e.get(st, in.Map).(MapV)
	if m.Obj == -1 {
		e.reportPanic(st, in.Pos(), "assignment to entry in nil map", e.TT.True)
		st.done = true
		return
	}
	e.mapStore(st, m, e.get(st, in.Key), e.get(st, in.Value))
	e.advance(st)
}

func (e *Engine) mapStore(st *State, m MapV, k, v Value) {
	e.recordAccess(st, "write", m.Obj, nil)
	o := e.wobj(st, m.Obj)
	eqs := e.mapEq(o, k)
	for i := len(eqs) - 1; i >= 0; i-- {
		if eqs[i] == e.TT.True {
			// definitely the same key: replace in place if no newer entry may alias
			clean := true
			for j := i + 1; j < len(eqs); j++ {
				if eqs[j] != e.TT.False {
					clean = false
				}
			}
			if clean {
				o.Vals[i] = v
				return
			}
			break
		}
	}
	o.Keys = append(o.Keys, k)
	o.Vals = append(o.Vals, v)
}

// mapDistinct checks that all keys are syntactically pairwise distinct (needed for len/range/delete).
func (e *Engine) mapDistinct(o *Obj) bool {
	for i := range o.Keys {
		for j := i + 1; j < len(o.Keys); j++ {
			if e.valueEq(o.Keys[i], o.Keys[j]) != e.TT.False {
				return false
			}
		}
	}
	return true
}

// ---------------------------------------------------------------- range / next

func (e *Engine) rangeOp(st *State, in *ssa.Range) {
	x := e.get(st, in.X)
	it := &iterState{}
	switch c := x.(type) {
	case StrV:
		it.str = c
	case MapV:
		it.isMap = true
		if c.Obj != -1 {
			o := e.obj(st, c.Obj)
			if !e.mapDistinct(o) {
				e.fail("range over map with possibly aliasing symbolic keys")
			}
			it.keys = append([]Value(nil), o.Keys...)
			it.vals = append([]Value(nil), o.Vals...)
		}
	default:
		e.fail("range over %T", x)
	}
	st.heap = append(st.heap, &Obj{owner: st.id, Iter: it})
	e.set(st, in, IterV{Obj: len(st.heap) - 1})
	e.advance(st)
}

func (e *Engine) nextOp(st *State, in *ssa.Next) {
	tt := e.TT
	iv := e.get(st, in.Iter).(IterV)
	o := e.wobj(st, iv.Obj)
	it := o.Iter
	tup := in.Type().(*types.Tuple)
	if it.isMap {
		if it.pos >= len(it.keys) {
			e.set(st, in, TupleV{E: []Value{tt.False, e.zero(tup.At(1).Type()), e.zero(tup.At(2).Type())}})
		} else {
			e.set(st, in, TupleV{E: []Value{tt.True, it.keys[it.pos], it.vals[it.pos]}})
			it.pos++
		}
		e.advance(st)
		return
	}
	if it.pos >= len(it.str.B) {
		e.set(st, in, TupleV{E: []Value{tt.False, tt.Int(0), tt.Const(32, 0)}})
		e.advance(st)
		return
	}
	b := it.str.B[it.pos]
	s, ok := valueSet(b, 0)
	if ok && s[2] == 0 && s[3] == 0 {
		e.set(st, in, TupleV{E: []Value{tt.True, tt.Int(int64(it.pos)), tt.Zext(b, 32)}})
		it.pos++
		e.advance(st)
		return
	}
	// non-ASCII: only concrete sequences are decoded
	var raw []byte
	for j := it.pos; j < len(it.str.B) && j < it.pos+4; j++ {
		if it.str.B[j].Op != OpConst {
			break
		}
		raw = append(raw, byte(it.str.B[j].Val))
	}
	if len(raw) == 0 {
		// symbolic byte that may be >= 0x80: claim restricted to ASCII; check feasibility
		viol := tt.Cmp(OpUle, tt.Const(8, 0x80), b)
		if e.feasible(st, viol) {
			e.addEvent(Event{Kind: "unsupported", Label: "range over string with possibly non-ASCII symbolic byte", Pos: e.posOf(st, in.Pos())})
			st.addPC(tt.Not(viol))
		}
		e.set(st, in, TupleV{E: []Value{tt.True, tt.Int(int64(it.pos)), tt.Zext(b, 32)}})
		it.pos++
		e.advance(st)
		return
	}
	r, size := decodeRune(raw)
	e.set(st, in, TupleV{E: []Value{tt.True, tt.Int(int64(it.pos)), tt.Const(32, uint64(r))}})
	it.pos += size
	e.advance(st)
}

func decodeRune(b []byte) (rune, int) {
	s := string(b)
	for _, r := range s {
		n := len(string(r))
		if r == 0xFFFD {
			n = 1
		}
		return r, n
	}
	return 0xFFFD, 1
}

// ---------------------------------------------------------------- slices

func (e *Engine) makeSlice(st *State, in *ssa.MakeSlice) ([]*State, bool) {
	n, succ, forked := e.intArg(st, in.Len, "make len")
	if forked {
		return succ, true
	}
	c, succ, forked := e.intArg(st, in.Cap, "make cap")
	if forked {
		return succ, true
	}
	if n < 0 || c < n {
		e.reportPanic(st, in.Pos(), "makeslice: len out of range", e.TT.True)
		st.done = true
		return nil, false
	}
	if c > 1<<16 {
		e.fail("make([]T, %d) too large for the engine", c)
	}
	elemT := in.Type().Underlying().(*types.Slice).Elem()
	z := e.zero(elemT)
	el := make([]Value, c)
	for i := range el {
		el[i] = z
	}
	id := e.alloc(st, ArrayV{E: el})
	e.set(st, in, SliceV{Arr: id, Off: 0, Len: n, Cap: c})
	e.advance(st)
	return nil, false
}

func (e *Engine) sliceOp(st *State, in *ssa.Slice) ([]*State, bool) {
	tt := e.TT
	x := e.get(st, in.X)
	// symbolic-length slice: concretise first
	if sv, ok := x.(SliceV); ok && sv.LenT != nil {
		return e.concretizeSliceLen(st, in.X, sv)
	}
	lo, hi, mx := 0, -1, -1
	if in.Low != nil {
		v, succ, forked := e.intArg(st, in.Low, "slice low")
		if forked {
			return succ, true
		}
		lo = v
	}
	if in.High != nil {
		v, succ, forked := e.intArg(st, in.High, "slice high")
		if forked {
			return succ, true
		}
		hi = v
	}
	if in.Max != nil {
		v, succ, forked := e.intArg(st, in.Max, "slice max")
		if forked {
			return succ, true
		}
		mx = v
	}
	bad := func(msg string) ([]*State, bool) {
		e.reportPanic(st, in.Pos(), msg, tt.True)
		st.done = true
		return nil, false
	}
	switch c := x.(type) {
	case StrV:
		if hi == -1 {
			hi = len(c.B)
		}
		if lo < 0 || hi < lo || hi > len(c.B) {
			return bad(fmt.Sprintf("slice bounds out of range [%d:%d] with length %d", lo, hi, len(c.B)))
		}
		e.set(st, in, StrV{B: c.B[lo:hi]})
	case SliceV:
		if hi == -1 {
			hi = c.Len
		}
		if mx == -1 {
			mx = c.Cap
		}
		if lo < 0 || hi < lo || mx < hi || mx > c.Cap {
			return bad(fmt.Sprintf("slice bounds out of range [%d:%d:%d] with capacity %d", lo, hi, mx, c.Cap))
		}
		if c.Arr == -1 {
			e.set(st, in, SliceV{Arr: -1})
		} else {
			e.set(st, in, SliceV{Arr: c.Arr, Off: c.Off + lo, Len: hi - lo, Cap: mx - lo})
		}
	case PtrV:
		if c.Obj == -1 {
			return bad("slice of nil array pointer")
		}
		arr := e.load(st, c).(ArrayV)
		if len(c.Path) != 0 {
			e.fail("slicing an array nested in an object is not supported")
		}
		n := len(arr.E)
		if hi == -1 {
			hi = n
		}
		if mx == -1 {
			mx = n
		}
		if lo < 0 || hi < lo || mx < hi || mx > n {
			return bad("slice bounds out of range (array)")
		}
		e.set(st, in, SliceV{Arr: c.Obj, Off: lo, Len: hi - lo, Cap: mx - lo})
	default:
		e.fail("Slice on %T", x)
	}
	e.advance(st)
	return nil, false
}

// ---------------------------------------------------------------- builtins

var sizeClasses = []int{0, 8, 16, 24, 32, 48, 64, 80, 96, 112, 128, 144, 160, 176, 192, 208, 224, 240, 256, 288, 320, 352, 384, 416, 448, 480, 512, 576, 640, 704, 768, 896, 1024, 1152, 1280, 1408, 1536, 1792, 2048, 2304, 2688, 3072, 3200, 3456, 4096, 4864, 5376, 6144, 6528, 6784, 6912, 8192, 9472, 9728, 10240, 10880, 12288, 13568, 14336, 16384, 18432, 19072, 20480, 21760, 24576, 27264, 28672, 32768}

func roundupsize(n int) int {
	for _, c := range sizeClasses {
		if c >= n {
			return c
		}
	}
	return (n + 8191) &^ 8191
}

// growCap mirrors runtime.growslice's capacity computation.
func growCap(oldCap, newLen, elemSize int) int {
	newcap := oldCap
	doublecap := newcap + newcap
	if newLen > doublecap {
		newcap = newLen
	} else {
		const threshold = 256
		if oldCap < threshold {
			newcap = doublecap
		} else {
			for newcap < newLen {
				newcap += (newcap + 3*threshold) >> 2
			}
		}
	}
	if elemSize <= 0 {
		return newcap
	}
	mem := roundupsize(newcap * elemSize)
	return mem / elemSize
}

var gcSizes = types.SizesFor("gc", "amd64")

func (e *Engine) builtin(st *State, in ssa.CallInstruction, name string, args []Value) ([]*State, bool) {
	tt := e.TT
	common := in.Common()
	switch name {
	case "len":
		switch c := args[0].(type) {
		case StrV:
			e.setResult(st, in, tt.Int(int64(len(c.B))))
		case SliceV:
			if c.LenT != nil {
				e.setResult(st, in, c.LenT)
			} else {
				e.setResult(st, in, tt.Int(int64(c.Len)))
			}
		case MapV:
			if c.Obj == -1 {
				e.setResult(st, in, tt.Int(0))
			} else {
				o := e.obj(st, c.Obj)
				if e.mapDistinct(o) {
					e.setResult(st, in, tt.Int(int64(len(o.Keys))))
				} else {
					// write-log with possibly aliasing keys: count the entries not shadowed by a later one
					n := tt.Int(0)
					for i := range o.Keys {
						var later []*Term
						for j := i + 1; j < len(o.Keys); j++ {
							later = append(later, tt.Not(e.valueEq(o.Keys[i], o.Keys[j])))
						}
						n = tt.Bin(OpAdd, n, tt.Ite(tt.And(later...), tt.Int(1), tt.Int(0)))
					}
					e.setResult(st, in, n)
				}
			}
		case ArrayV:
			e.setResult(st, in, tt.Int(int64(len(c.E))))
		case PtrV:
			arr := common.Args[0].Type().Underlying().(*types.Pointer).Elem().Underlying().(*types.Array)
			e.setResult(st, in, tt.Int(arr.Len()))
		default:
			e.fail("len of %T", args[0])
		}
	case "cap":
		switch c := args[0].(type) {
		case SliceV:
			e.setResult(st, in, tt.Int(int64(c.Cap)))
		default:
			e.fail("cap of %T", args[0])
		}
	case "append":
		s := args[0].(SliceV)
		if s.LenT != nil {
			return e.concretizeSliceLen(st, common.Args[0], s)
		}
		var add []Value
		switch t := args[1].(type) {
		case SliceV:
			if t.LenT != nil {
				return e.concretizeSliceLen(st, common.Args[1], t)
			}
			add = e.sliceElems(st, t)
		case StrV:
			for _, b := range t.B {
				add = append(add, b)
			}
		default:
			e.fail("append of %T", args[1])
		}
		if len(add) == 0 {
			e.setResult(st, in, s)
			break
		}
		elemT := common.Args[0].Type().Underlying().(*types.Slice).Elem()
		if s.Arr != -1 && s.Len+len(add) <= s.Cap {
			o := e.wobj(st, s.Arr)
			arr := o.Val.(ArrayV)
			el := append([]Value(nil), arr.E...)
			copy(el[s.Off+s.Len:], add)
			o.Val = ArrayV{E: el}
			e.setResult(st, in, SliceV{Arr: s.Arr, Off: s.Off, Len: s.Len + len(add), Cap: s.Cap})
			break
		}
		newLen := s.Len + len(add)
		nc := growCap(s.Cap, newLen, int(gcSizes.Sizeof(elemT)))
		old := e.sliceElems(st, s)
		all := append(append([]Value(nil), old...), add...)
		e.setResult(st, in, e.newSlice(st, all, nc, e.zero(elemT)))
	case "copy":
		d := args[0].(SliceV)
		if d.LenT != nil {
			return e.concretizeSliceLen(st, common.Args[0], d)
		}
		var src []Value
		switch t := args[1].(type) {
		case SliceV:
			if t.LenT != nil {
				return e.concretizeSliceLen(st, common.Args[1], t)
			}
			src = append([]Value(nil), e.sliceElems(st, t)...)
		case StrV:
			for _, b := range t.B {
				src = append(src, b)
			}
		}
		n := len(src)
		if d.Len < n {
			n = d.Len
		}
		if n > 0 {
			o := e.wobj(st, d.Arr)
			arr := o.Val.(ArrayV)
			el := append([]Value(nil), arr.E...)
			copy(el[d.Off:d.Off+n], src[:n])
			o.Val = ArrayV{E: el}
		}
		e.setResult(st, in, tt.Int(int64(n)))
	case "delete":
		m := args[0].(MapV)
		if m.Obj != -1 {
			o := e.wobj(st, m.Obj)
			eqs := e.mapEq(o, args[1])
			var nk, nv []Value
			for i, q := range eqs {
				if q == tt.True {
					continue
				}
				if q != tt.False {
					e.fail("delete with symbolic key")
				}
				nk = append(nk, o.Keys[i])
				nv = append(nv, o.Vals[i])
			}
			o.Keys, o.Vals = nk, nv
		}
	case "print", "println":
	case "min", "max":
		r := args[0].(*Term)
		_, signed, _ := intInfo(common.Args[0].Type())
		for _, a := range args[1:] {
			t := a.(*Term)
			op := OpUlt
			if signed {
				op = OpSlt
			}
			var c *Term
			if name == "min" {
				c = tt.Cmp(op, t, r)
			} else {
				c = tt.Cmp(op, r, t)
			}
			r = tt.Ite(c, t, r)
		}
		e.setResult(st, in, r)
	case "clear":
		switch c := args[0].(type) {
		case SliceV:
			if c.LenT != nil {
				return e.concretizeSliceLen(st, common.Args[0], c)
			}
			if c.Len > 0 {
				elemT := common.Args[0].Type().Underlying().(*types.Slice).Elem()
				z := e.zero(elemT)
				o := e.wobj(st, c.Arr)
				arr := o.Val.(ArrayV)
				el := append([]Value(nil), arr.E...)
				for i := c.Off; i < c.Off+c.Len; i++ {
					el[i] = z
				}
				o.Val = ArrayV{E: el}
			}
		case MapV:
			if c.Obj != -1 {
				o := e.wobj(st, c.Obj)
				o.Keys, o.Vals = nil, nil
			}
		}
	case "String":
		// unsafe.String(ptr *byte, len)
		p, ok := args[0].(PtrV)
		n := args[1].(*Term)
		if !ok || n.Op != OpConst || len(p.Path) != 1 || p.Path[0].T != nil {
			e.fail("unsafe.String with unsupported arguments")
		}
		ln := int(n.SignedVal())
		if ln == 0 {
			e.setResult(st, in, StrV{})
			break
		}
		arr := e.obj(st, p.Obj).Val.(ArrayV)
		bs := make([]*Term, ln)
		for i := 0; i < ln; i++ {
			bs[i] = arr.E[p.Path[0].I+i].(*Term)
		}
		e.setResult(st, in, StrV{B: bs})
	case "recover":
		e.setResult(st, in, IfaceV{})
	case "ssa:wrapnilchk":
		if p, ok := args[0].(PtrV); ok && p.Obj == -1 {
			e.reportPanic(st, in.Pos(), "nil pointer in method wrapper", tt.True)
			st.done = true
			return nil, false
		}
		e.setResult(st, in, args[0])
	default:
		e.fail("unsupported builtin %s", name)
	}
	if !st.done {
		e.advance(st)
	}
	return nil, false
}

func shortFn(fn *ssa.Function) string {
	s := fn.String()
	s = strings.ReplaceAll(s, "github.com/AdguardTeam/urlfilter/", "")
	s = strings.ReplaceAll(s, "github.com/AdguardTeam/urlfilter.", "urlfilter.")
	return s
}

// Ipdom exposes the post-dominator map (debugging).
func (e *Engine) Ipdom(fn *ssa.Function) map[*ssa.BasicBlock]*ssa.BasicBlock { return e.ipdom(fn) }

// uniformShape: all values can be selected among by an ite (same scalar width / same string length).
func uniformShape(vals []Value) bool {
	for i := 1; i < len(vals); i++ {
		switch a := vals[0].(type) {
		case *Term:
			b, ok := vals[i].(*Term)
			if !ok || a.W != b.W {
				return false
			}
		case StrV:
			b, ok := vals[i].(StrV)
			if !ok || len(a.B) != len(b.B) {
				return false
			}
		default:
			return false
		}
	}
	return true
}

// MapDelete removes a concrete key from a map (for intrinsics of library map types).
func (e *Engine) MapDelete(st *State, m MapV, k Value) {
	if m.Obj == -1 {
		return
	}
	o := e.wobj(st, m.Obj)
	eqs := e.mapEq(o, k)
	var nk, nv []Value
	for i, q := range eqs {
		if q == e.TT.True {
			continue
		}
		if q != e.TT.False {
			e.fail("MapDelete with a symbolic key")
		}
		nk = append(nk, o.Keys[i])
		nv = append(nv, o.Vals[i])
	}
	o.Keys, o.Vals = nk, nv
}
