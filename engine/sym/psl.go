package sym

import (
	"fmt"
	"net/netip"
	"reflect"
	"sort"

	"golang.org/x/net/publicsuffix"
	"golang.org/x/tools/go/ssa"
)

// PSLTail is one entry of the compact Public Suffix List model: every host that
// ends with Tail (a dot followed by labels) has public suffix Suffix.
type PSLTail struct {
	Tail   string
	Suffix string
	ICANN  bool
}

// PSLModel models publicsuffix.PublicSuffix on hosts of the form
// <labels over Free and '.'> [Tail].  Without a tail the implicit "*" rule
// applies: the suffix is the last label and it is not an ICANN suffix.
// The model is validated exhaustively against the real library by the checks.
type PSLModel struct {
	Free  string // letters that form no PSL rule in any combination (validated)
	Tails []PSLTail
}

// DefaultPSL is the model used by the harnesses.
var DefaultPSL = &PSLModel{
	Free: "zqZ",
	Tails: []PSLTail{
		{".co.uk", "co.uk", true},
		{".com", "com", true},
		{".org", "org", true},
		{".uk", "uk", true},
	},
}

// ValidatePSL checks the model against the real library for every host over
// Free ∪ {'.'} up to maxLen bytes, alone and followed by each tail.
func ValidatePSL(m *PSLModel, maxLen int) (n int, mismatches []string) {
	alpha := m.Free + "."
	var rec func(prefix string)
	check := func(h string) {
		n++
		wantS, wantI := modelPSL(m, h)
		gotS, gotI := publicsuffix.PublicSuffix(h)
		if wantS != gotS || wantI != gotI {
			if len(mismatches) < 10 {
				mismatches = append(mismatches, fmt.Sprintf("PublicSuffix(%q) = (%q,%v), model says (%q,%v)", h, gotS, gotI, wantS, wantI))
			}
		}
	}
	rec = func(prefix string) {
		check(prefix)
		for _, t := range m.Tails {
			check(prefix + t.Tail)
			if prefix == "" {
				check(t.Tail[1:])
			}
		}
		if len(prefix) >= maxLen {
			return
		}
		for i := 0; i < len(alpha); i++ {
			rec(prefix + string(alpha[i]))
		}
	}
	rec("")
	return n, mismatches
}

func modelPSL(m *PSLModel, h string) (string, bool) {
	tails := append([]PSLTail(nil), m.Tails...)
	sort.Slice(tails, func(i, j int) bool { return len(tails[i].Tail) > len(tails[j].Tail) })
	for _, t := range tails {
		if len(h) >= len(t.Tail) && h[len(h)-len(t.Tail):] == t.Tail {
			return t.Suffix, t.ICANN
		}
		if h == t.Tail[1:] {
			return t.Suffix, t.ICANN
		}
	}
	last := -1
	for i := 0; i < len(h); i++ {
		if h[i] == '.' {
			last = i
		}
	}
	return h[last+1:], false
}

func registerPSL(e *Engine) {
	e.Intrinsics["golang.org/x/net/publicsuffix.PublicSuffix"] = func(e *Engine, st *State, c ssa.CallInstruction, a []Value) []*State {
		s := a[0].(StrV)
		tt := e.TT
		if cs, ok := StrConcrete(s); ok {
			suf, icann := publicsuffix.PublicSuffix(cs)
			e.setResult(st, c, TupleV{E: []Value{e.ConcreteStr(suf), tt.Bool(icann)}})
			return nil
		}
		m, _ := e.Ctx["psl"].(*PSLModel)
		if m == nil {
			m = DefaultPSL
		}
		// concrete tail?
		nconc := 0
		for i := len(s.B) - 1; i >= 0 && s.B[i].Op == OpConst; i-- {
			nconc++
		}
		tail := ""
		for i := len(s.B) - nconc; i < len(s.B); i++ {
			tail += string(rune(s.B[i].Val))
		}
		tails := append([]PSLTail(nil), m.Tails...)
		sort.Slice(tails, func(i, j int) bool { return len(tails[i].Tail) > len(tails[j].Tail) })
		for _, t := range tails {
			if len(tail) >= len(t.Tail) && tail[len(tail)-len(t.Tail):] == t.Tail {
				// the bytes before the tail must come from the free alphabet
				e.checkFree(m, s.B[:len(s.B)-len(t.Tail)])
				e.setResult(st, c, TupleV{E: []Value{e.ConcreteStr(t.Suffix), tt.Bool(t.ICANN)}})
				return nil
			}
		}
		if nconc > 0 && tail != "." {
			// a concrete tail that the model does not know
			for _, ch := range tail {
				if ch != '.' && !containsByte(m.Free, byte(ch)) {
					e.fail("PSL model has no entry for a host ending in %q", tail)
				}
			}
		}
		e.checkFree(m, s.B)
		// implicit rule: the last label
		var out []*State
		for p := len(s.B); p >= 0; p-- {
			// last dot at p-1 (p==0: no dot)
			var conds []*Term
			if p > 0 {
				conds = append(conds, tt.Eq(s.B[p-1], tt.Const(8, '.')))
			}
			for q := p; q < len(s.B); q++ {
				conds = append(conds, tt.Not(tt.Eq(s.B[q], tt.Const(8, '.'))))
			}
			cond := tt.And(conds...)
			if cond == tt.False || !e.feasible(st, cond) {
				continue
			}
			ch := e.Clone(st)
			e.addHardPC(ch, cond)
			e.setResult(ch, c, TupleV{E: []Value{StrV{B: s.B[p:]}, tt.False}})
			out = append(out, ch)
		}
		st.done = true
		e.Stats.Forks += len(out)
		return out
	}
}

func containsByte(s string, b byte) bool {
	for i := 0; i < len(s); i++ {
		if s[i] == b {
			return true
		}
	}
	return false
}

// checkFree makes sure every byte is drawn from Free ∪ {'.'} (else the model does not apply).
func (e *Engine) checkFree(m *PSLModel, bs []*Term) {
	allowed := SetOf(m.Free + ".")
	for _, b := range bs {
		vs, ok := valueSet(b, 0)
		if !ok {
			e.fail("PSL model applied to an unconstrained byte")
		}
		for v := 0; v < 256; v++ {
			if vs.Has(byte(v)) && !allowed.Has(byte(v)) {
				e.fail("PSL model applied to a byte %q outside its validated alphabet %q", byte(v), m.Free+".")
			}
		}
	}
}

// ---------------------------------------------------------------- netip.ParseAddr on symbolic input

// parseAddrContract: the result is a deterministic (uninterpreted) function of
// the input bytes: an error, an IPv4 address or an IPv6 address without zone.
func parseAddrContract(e *Engine, st *State, c ssa.CallInstruction, a []Value) []*State {
	tt := e.TT
	s := a[0].(StrV)
	addrT := e.lookupNamed("net/netip", "Addr")
	n := len(s.B)
	okT := tt.UF(fmt.Sprintf("netip.ok/%d", n), 0, s.B...)
	is4T := tt.UF(fmt.Sprintf("netip.is4/%d", n), 0, s.B...)
	hi := tt.UF(fmt.Sprintf("netip.hi/%d", n), 64, s.B...)
	lo := tt.UF(fmt.Sprintf("netip.lo/%d", n), 64, s.B...)
	var out []*State
	mk := func(cond *Term, v Value, err Value) {
		if !e.feasible(st, cond) {
			return
		}
		ch := e.Clone(st)
		e.addHardPC(ch, cond)
		e.setResult(ch, c, TupleV{E: []Value{v, err}})
		out = append(out, ch)
	}
	mk(tt.Not(okT), e.zero(addrT), e.newError(st, "netip.ParseAddr (contract)"))
	v4 := netip.IPv4Unspecified()
	v6 := netip.IPv6Unspecified()
	a4 := e.FromNative(st, reflect.ValueOf(&v4).Elem(), addrT).(StructV)
	a6 := e.FromNative(st, reflect.ValueOf(&v6).Elem(), addrT).(StructV)
	// Addr{addr uint128{hi,lo}, z}
	lo4 := tt.Bin(OpBOr, tt.Const(64, 0xffff00000000), tt.Bin(OpBAnd, lo, tt.Const(64, 0xffffffff)))
	mk(tt.And(okT, is4T), StructV{F: []Value{StructV{F: []Value{tt.Const(64, 0), lo4}}, a4.F[1]}}, IfaceV{})
	mk(tt.And(okT, tt.Not(is4T)), StructV{F: []Value{StructV{F: []Value{hi, lo}}, a6.F[1]}}, IfaceV{})
	st.done = true
	e.Stats.Forks += len(out)
	return out
}
