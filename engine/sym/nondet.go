package sym

import (
	"fmt"
	"strings"

	"golang.org/x/tools/go/ssa"
)

// verifIntrinsic dispatches calls to harness functions named verif*.
func (e *Engine) verifIntrinsic(name string) Intrinsic {
	switch name {
	case "verifSymbolic":
		return func(e *Engine, st *State, c ssa.CallInstruction, a []Value) []*State {
			e.setResult(st, c, e.TT.True)
			return nil
		}
	case "verifU64", "verifInt":
		return nondetInt(64)
	case "verifU32":
		return nondetInt(32)
	case "verifU16":
		return nondetInt(16)
	case "verifU8":
		return nondetInt(8)
	case "verifBool":
		return nondetInt(0)
	case "verifByteIn":
		return func(e *Engine, st *State, c ssa.CallInstruction, a []Value) []*State {
			name := e.concStr(a[0], "verifByteIn name")
			alpha := e.concStr(a[1], "verifByteIn alphabet")
			v := e.NewInput(name, 8, SetOf(alpha))
			st.addPC(e.domainConstraint(v))
			e.setResult(st, c, v)
			return nil
		}
	case "verifString":
		return func(e *Engine, st *State, c ssa.CallInstruction, a []Value) []*State {
			name := e.concStr(a[0], "verifString name")
			n := a[1].(*Term)
			if n.Op != OpConst {
				e.fail("verifString with symbolic length")
			}
			alpha := e.concStr(a[2], "verifString alphabet")
			set := SetOf(alpha)
			bs := make([]*Term, int(n.SignedVal()))
			for i := range bs {
				v := e.NewInput(fmt.Sprintf("%s[%d]", name, i), 8, set)
				st.addPC(e.domainConstraint(v))
				bs[i] = v
			}
			e.setResult(st, c, StrV{B: bs})
			return nil
		}
	case "verifChoice":
		return func(e *Engine, st *State, c ssa.CallInstruction, a []Value) []*State {
			name := e.concStr(a[0], "verifChoice name")
			n := a[1].(*Term)
			if n.Op != OpConst {
				e.fail("verifChoice with symbolic n")
			}
			k := int(n.SignedVal())
			if k <= 1 {
				e.setResult(st, c, e.TT.Int(0))
				return nil
			}
			v := e.NewInput(name, 64, nil)
			var out []*State
			for i := 0; i < k; i++ {
				ch := e.Clone(st)
				e.addHardPC(ch, e.TT.Eq(v, e.TT.Int(int64(i))))
				e.setResult(ch, c, e.TT.Int(int64(i)))
				out = append(out, ch)
			}
			st.done = true
			e.Stats.Forks += k
			return out
		}
	case "verifAssume":
		return func(e *Engine, st *State, c ssa.CallInstruction, a []Value) []*State {
			cond := a[0].(*Term)
			if cond.Op == OpConst {
				if cond.Val == 0 {
					st.done = true
					e.Stats.AssumePruned++
				}
				return nil
			}
			if !e.feasible(st, cond) {
				st.done = true
				e.Stats.AssumePruned++
				return nil
			}
			st.addPC(cond)
			return nil
		}
	case "verifAssert":
		return func(e *Engine, st *State, c ssa.CallInstruction, a []Value) []*State {
			cond := a[0].(*Term)
			label := e.concStr(a[1], "verifAssert label")
			e.checkAssert(st, c, cond, label)
			return nil
		}
	case "verifReach":
		return func(e *Engine, st *State, c ssa.CallInstruction, a []Value) []*State {
			e.Reach[e.concStr(a[0], "verifReach label")]++
			return nil
		}
	case "verifSymLen":
		// verifSymLen(s []T, name string) []T : the prefix of s of arbitrary length 0..len(s)
		return func(e *Engine, st *State, c ssa.CallInstruction, a []Value) []*State {
			s := a[0].(SliceV)
			name := e.concStr(a[1], "verifSymLen name")
			if s.LenT != nil {
				e.fail("verifSymLen on symbolic-length slice")
			}
			if s.Len == 0 {
				e.setResult(st, c, s)
				return nil
			}
			v := e.NewInput(name, 64, nil)
			st.addPC(e.TT.Cmp(OpUle, v, e.TT.Int(int64(s.Len))))
			ns := s
			ns.LenT = v
			e.setResult(st, c, ns)
			return nil
		}
	case "verifUF64":
		// verifUF64(name string, args ...uint64) uint64 : uninterpreted function
		return func(e *Engine, st *State, c ssa.CallInstruction, a []Value) []*State {
			name := e.concStr(a[0], "verifUF64 name")
			var args []*Term
			for _, v := range e.sliceElems(st, a[1].(SliceV)) {
				args = append(args, v.(*Term))
			}
			e.setResult(st, c, e.TT.UF(fmt.Sprintf("%s/%d", name, len(args)), 64, args...))
			return nil
		}
	case "verifUFBool":
		return func(e *Engine, st *State, c ssa.CallInstruction, a []Value) []*State {
			name := e.concStr(a[0], "verifUFBool name")
			var args []*Term
			for _, v := range e.sliceElems(st, a[1].(SliceV)) {
				args = append(args, v.(*Term))
			}
			e.setResult(st, c, e.TT.UF(fmt.Sprintf("%s/%d", name, len(args)), 0, args...))
			return nil
		}
	case "verifUFStr":
		// verifUFStr(name string, s string) uint64: uninterpreted function of a string's bytes (per length)
		return func(e *Engine, st *State, c ssa.CallInstruction, a []Value) []*State {
			name := e.concStr(a[0], "verifUFStr name")
			s := a[1].(StrV)
			res := e.TT.UF(fmt.Sprintf("%s/%d", name, len(s.B)), 64, s.B...)
			// optional exact table for some strings (natively computed); strings outside it stay uninterpreted
			if tab, ok := e.Ctx["table:"+name].(map[string]uint64); ok {
				for k, v := range tab {
					if len(k) == len(s.B) {
						res = e.TT.Ite(e.strEq(s, e.ConcreteStr(k)), e.TT.Const(64, v), res)
					}
				}
			}
			e.setResult(st, c, res)
			return nil
		}
	case "verifUFStrBool":
		return func(e *Engine, st *State, c ssa.CallInstruction, a []Value) []*State {
			name := e.concStr(a[0], "verifUFStrBool name")
			s := a[1].(StrV)
			e.setResult(st, c, e.TT.UF(fmt.Sprintf("%s/%d", name, len(s.B)), 0, s.B...))
			return nil
		}
	case "verifB2I":
		return func(e *Engine, st *State, c ssa.CallInstruction, a []Value) []*State {
			e.setResult(st, c, e.TT.Ite(a[0].(*Term), e.TT.Const(8, 1), e.TT.Const(8, 0)))
			return nil
		}
	case "verifNativeRule":
		return func(e *Engine, st *State, c ssa.CallInstruction, a []Value) []*State {
			i := a[0].(*Term)
			if i.Op != OpConst {
				e.fail("verifNativeRule with symbolic index")
			}
			h, ok := e.Ctx["native:rule"].(func(e *Engine, st *State, i int) Value)
			if !ok {
				e.fail("no native rule provider")
			}
			e.setResult(st, c, h(e, st, int(i.SignedVal())))
			return nil
		}
	case "verifKeywordList":
		return func(e *Engine, st *State, c ssa.CallInstruction, a []Value) []*State {
			kind := e.concStr(a[0], "verifKeywordList kind")
			m, _ := e.Ctx["keywords"].(map[string][]string)
			var el []Value
			for _, s := range m[kind] {
				el = append(el, e.ConcreteStr(s))
			}
			e.setResult(st, c, e.newSlice(st, el, len(el), StrV{}))
			return nil
		}
	case "verifNativeCosmetic":
		return func(e *Engine, st *State, c ssa.CallInstruction, a []Value) []*State {
			i, j := a[0].(*Term), a[1].(*Term)
			h, ok := e.Ctx["native:cosmetic"].(func(e *Engine, st *State, i, j int) Value)
			if !ok || i.Op != OpConst || j.Op != OpConst {
				e.fail("verifNativeCosmetic: no provider or symbolic index")
			}
			e.setResult(st, c, h(e, st, int(i.SignedVal()), int(j.SignedVal())))
			return nil
		}
	case "verifNativeCosmeticCount":
		return func(e *Engine, st *State, c ssa.CallInstruction, a []Value) []*State {
			h, ok := e.Ctx["native:cosmeticcount"].(func(i int) int)
			i := a[0].(*Term)
			if !ok || i.Op != OpConst {
				e.fail("verifNativeCosmeticCount: no provider or symbolic index")
			}
			e.setResult(st, c, e.TT.Int(int64(h(int(i.SignedVal())))))
			return nil
		}
	case "verifShared":
		// everything allocated so far is shared between the goroutines; start recording events
		return func(e *Engine, st *State, c ssa.CallInstruction, a []Value) []*State {
			e.SharedLimit = len(st.heap)
			e.RecordEvents = true
			return nil
		}
	case "verifAcquire":
		return func(e *Engine, st *State, c ssa.CallInstruction, a []Value) []*State {
			e.RecordSync(st, "lock", a[0])
			return nil
		}
	case "verifRelease":
		return func(e *Engine, st *State, c ssa.CallInstruction, a []Value) []*State {
			e.RecordSync(st, "unlock", a[0])
			return nil
		}
	case "verifFileSeekRaw":
		return e.Intrinsics["(*os.File).Seek"]
	case "verifFileReadRaw":
		return e.Intrinsics["(*os.File).Read"]
	case "verifFile":
		// verifFile(content string) *os.File : a file of the engine's file model
		return func(e *Engine, st *State, c ssa.CallInstruction, a []Value) []*State {
			id := e.alloc(st, StructV{F: []Value{a[0].(StrV), e.TT.Int(0), e.TT.False, e.TT.False}})
			e.setResult(st, c, PtrV{Obj: id})
			return nil
		}
	case "verifFileShort":
		// like verifFile, but every Read may return a single byte instead of all it could (short reads)
		return func(e *Engine, st *State, c ssa.CallInstruction, a []Value) []*State {
			id := e.alloc(st, StructV{F: []Value{a[0].(StrV), e.TT.Int(0), e.TT.False, e.TT.True}})
			e.setResult(st, c, PtrV{Obj: id})
			return nil
		}
	case "verifKnown":
		return func(e *Engine, st *State, c ssa.CallInstruction, a []Value) []*State {
			id := e.concStr(a[0], "verifKnown id")
			known, _ := e.Ctx["known"].(map[string]bool)
			e.setResult(st, c, e.TT.Bool(known[id]))
			return nil
		}
	case "verifNote":
		return func(e *Engine, st *State, c ssa.CallInstruction, a []Value) []*State { return nil }
	case "verifNative":
		// verifNative(kind string, i int) any : object provided by the driver (imported from the native heap)
		return func(e *Engine, st *State, c ssa.CallInstruction, a []Value) []*State {
			kind := e.concStr(a[0], "verifNative kind")
			i := a[1].(*Term)
			if i.Op != OpConst {
				e.fail("verifNative with symbolic index")
			}
			h, ok := e.Ctx["native:"+kind].(func(e *Engine, st *State, i int) Value)
			if !ok {
				e.fail("no native provider for kind %q", kind)
			}
			e.setResult(st, c, h(e, st, int(i.SignedVal())))
			return nil
		}
	}
	return nil
}

func nondetInt(w int) Intrinsic {
	return func(e *Engine, st *State, c ssa.CallInstruction, a []Value) []*State {
		name := e.concStr(a[0], "nondet name")
		e.setResult(st, c, e.NewInput(name, w, nil))
		return nil
	}
}

func (e *Engine) concStr(v Value, what string) string {
	s, ok := StrConcrete(v.(StrV))
	if !ok {
		e.fail("%s must be a concrete string", what)
	}
	return s
}

// checkAssert decides pc ⇒ cond.
func (e *Engine) checkAssert(st *State, c ssa.CallInstruction, cond *Term, label string) {
	as := e.AssertLabels[label]
	if as == nil {
		as = &AssertStat{}
		e.AssertLabels[label] = as
	}
	as.Checked++
	e.Stats.AssertQueries++
	if cond.Op == OpConst && cond.Val != 0 {
		e.Stats.AssertUnsat++
		return
	}
	res, model := e.modelFor(st, e.TT.Not(cond))
	needsCollision := false
	if res == Sat && e.InjectiveUF != "" {
		// prefer a counterexample that needs no hash collision (it can be replayed against the real hash)
		if inj := e.injectivity(append(append([]*Term(nil), st.pc...), cond)); len(inj) > 0 {
			if r2, m2 := e.modelFor(st, append([]*Term{e.TT.Not(cond)}, inj...)...); r2 == Sat {
				model = m2
			} else {
				needsCollision = true
			}
		}
	}
	if e.CrossEvery > 0 && res != Unknown {
		e.crossCount++
		if e.crossCount%e.CrossEvery == 0 {
			// deterministic sample of assertion queries re-decided by a second solver on the identical text
			script := DumpQuery(e.TT, st.pc, []*Term{e.TT.Not(cond)})
			r2, _ := RunStandalone(e.CrossSolver, script, 60000)
			e.CrossChecked++
			if r2 != Unknown && r2 != res {
				e.addEvent(Event{Kind: "unknown", Label: "solver disagreement on " + label, Pos: e.posOf(st, c.Pos()), Detail: fmt.Sprintf("z3 says %v, %s says %v", res, e.CrossSolver, r2)})
			} else if r2 == Unknown {
				e.CrossUnknown++
			}
		}
	}
	switch res {
	case Unsat:
		e.Stats.AssertUnsat++
		return
	case Unknown:
		e.Stats.AssertUnknown++
		as.Unknown++
		e.addEvent(Event{Kind: "unknown", Label: label, Pos: e.posOf(st, c.Pos()), Detail: "solver returned unknown on assertion"})
		st.addPC(cond)
		return
	}
	e.Stats.AssertSat++
	as.Failed++
	ev := Event{Kind: "assert", Label: label, Pos: e.posOf(st, c.Pos()), Model: model}
	if needsCollision {
		ev.Detail = "needs-collision"
	}
	e.addEvent(ev)
	// continue under the assumption that the assertion holds (other violations are still searched)
	st.addPC(cond)
	if !e.feasible(st, e.TT.True) {
		st.done = true
	}
}

// injectivity returns constraints saying that the uninterpreted functions whose name starts
// with e.InjectiveUF are injective on the applications occurring in the given terms
// (also across arities, which are different functions per string length).
func (e *Engine) injectivity(roots []*Term) []*Term {
	tt := e.TT
	seen := map[int]bool{}
	var apps []*Term
	var walk func(t *Term)
	walk = func(t *Term) {
		if seen[t.ID] {
			return
		}
		seen[t.ID] = true
		if t.Op == OpUF && strings.HasPrefix(t.Name, e.InjectiveUF) {
			apps = append(apps, t)
		}
		for _, a := range t.Args {
			walk(a)
		}
	}
	for _, r := range roots {
		walk(r)
	}
	var out []*Term
	for i := 0; i < len(apps); i++ {
		for j := i + 1; j < len(apps); j++ {
			a, b := apps[i], apps[j]
			same := tt.False
			if a.Name == b.Name && len(a.Args) == len(b.Args) {
				eqs := make([]*Term, len(a.Args))
				for k := range a.Args {
					eqs[k] = tt.Eq(a.Args[k], b.Args[k])
				}
				same = tt.And(eqs...)
			}
			// the callers use the low 32 bits of the value (uint32 hashes)
			la, lb := a, b
			if a.W > 32 && b.W > 32 {
				la, lb = tt.Extract(a, 31, 0), tt.Extract(b, 31, 0)
			}
			out = append(out, tt.Or(same, tt.Not(tt.Eq(la, lb))))
		}
	}
	return out
}
