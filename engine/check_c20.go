package main

func init() {
	register(&Spec{
		ID:       "C20",
		Pkgs:     []string{"proxy"},
		InitPkgs: []string{},
		Jobs: func(tier string) []Job {
			jobs := []Job{{Pkg: "proxy", Func: "verifC20Vacuity", Vacuity: true}}
			maxN := 9
			ks := []int64{-1, 0, 1, 3, 6, 8}
			if tier == "thorough" {
				maxN = 13
				ks = []int64{-2, -1, 0, 1, 2, 3, 4, 5, 6, 7, 8, 9}
			}
			for n := 0; n <= maxN; n++ {
				for a := 0; a < 3; a++ {
					jobs = append(jobs, Job{Pkg: "proxy", Func: "verifC20Index", Args: []int64{int64(n), int64(a)}})
				}
			}
			for _, k := range ks {
				jobs = append(jobs, Job{Pkg: "proxy", Func: "verifC20Window", Args: []int64{k}})
			}
			return jobs
		},
		MustReach: []string{"c20.found", "c20.none", "c20.window"},
		Bounds: map[string]string{
			"quick":    "findBodyInjectionIndex/isMatchFound on bodies of 0..9 symbolic bytes over three alphabets (the letters of each marker in both cases, '<', '/', a filler) and on bodies of 16384-k filler bytes followed by 9 symbolic bytes for k in {-1,0,1,3,6,8}; the splice arithmetic on the found index",
			"thorough": "bodies up to 13 symbolic bytes; every k in -2..9",
		},
		Outside:     []string{"filterHTML's I/O: decompression, the Latin-1 round trip (bytes >= 0x80 become two bytes in the decoded string, so the window counts decoded bytes), header updates, Content-Length, the content-script template: NOT modelled or claimed in this round", "bodies other than the two shapes"},
		Assumptions: []string{"strings.EqualFold on ASCII"},
		Rule:        "body bytes symbolic; one state per feasible path of the scan",
	})
}
