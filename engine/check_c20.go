package main

import (
	"net/textproto"

	"verif/engine/sym"

	"golang.org/x/tools/go/ssa"
)

func init() {
	register(&Spec{
		ID:       "C20",
		Pkgs:     []string{"proxy"},
		InitPkgs: []string{},
		Jobs: func(tier string) []Job {
			jobs := []Job{{Pkg: "proxy", Func: "verifC20Vacuity", Vacuity: true}}
			maxN := 9
			ks := []int64{-1, 0, 1, 3, 6, 8}
			if tier == "thorough" {
				maxN = 13
				ks = []int64{-2, -1, 0, 1, 2, 3, 4, 5, 6, 7, 8, 9}
			}
			for n := 0; n <= maxN; n++ {
				for a := 0; a < 3; a++ {
					jobs = append(jobs, Job{Pkg: "proxy", Func: "verifC20Index", Args: []int64{int64(n), int64(a)}})
				}
			}
			for n := 5; n <= 8; n++ {
				jobs = append(jobs, Job{Pkg: "proxy", Func: "verifC20IndexAny", Args: []int64{int64(n)}})
			}
			maxF := 6
			if tier == "thorough" {
				maxF = 7
			}
			for n := 0; n <= maxF; n++ {
				for a := 0; a < 3; a++ {
					jobs = append(jobs, Job{Pkg: "proxy", Func: "verifC20Filter", Args: []int64{int64(n), int64(a)}})
				}
			}
			for _, k := range ks {
				jobs = append(jobs, Job{Pkg: "proxy", Func: "verifC20Window", Args: []int64{k}})
			}
			return jobs
		},
		Setup: func(e *sym.Engine, st *sym.State, l *sym.Loaded) {
			px := l.Pkgs[modPath+"/proxy"]
			// the package initialiser runs (a change may add package-level tables); the parsed templates,
			// which the harness replaces anyway, are opaque
			e.OpaquePkgs = map[string]bool{"text/template": true, "html/template": true, "time": true}
			e.RunInit(st, px)
			e.OpaquePkgs = nil
			setupNetip(e, st, l)
			e.Ctx["latin1"] = true
			e.Redirects["github.com/AdguardTeam/gomitmproxy/proxyutil.ReadDecompressedBody"] = px.Func("verifReadDecompressedBody")
			e.Redirects["github.com/AdguardTeam/gomitmproxy/proxyutil.DecodeLatin1"] = px.Func("verifDecodeLatin1")
			e.Redirects["github.com/AdguardTeam/gomitmproxy/proxyutil.EncodeLatin1"] = px.Func("verifEncodeLatin1")
			e.Redirects["(*"+modPath+"/proxy.Server).buildInjectionCode"] = px.Func("verifBuildInjection")
			e.Intrinsics["net/http.Header.Del"] = func(e *sym.Engine, st *sym.State, c ssa.CallInstruction, a []sym.Value) []*sym.State {
				k, ok := sym.StrConcrete(a[1].(sym.StrV))
				if !ok {
					panic("Header.Del with a symbolic key")
				}
				e.MapDelete(st, a[0].(sym.MapV), e.ConcreteStr(textproto.CanonicalMIMEHeaderKey(k)))
				return nil
			}
		},
		ContractStubs: "filterHTML environment: identity decompression, Latin-1 coding per its definition, fixed tag",
		MustReach: []string{"c20.found", "c20.none", "c20.window", "c20.injected", "c20.unchanged"},
		Bounds: map[string]string{
			"quick":    "findBodyInjectionIndex/isMatchFound on bodies of 0..9 symbolic bytes over three alphabets (the letters of each marker in both cases, '<', '/', a filler) and on bodies of 5..8 arbitrary 7-bit bytes (control characters included) and on bodies of 16384-k filler bytes followed by 9 symbolic bytes for k in {-1,0,1,3,6,8}; filterHTML (environment stubbed) on bodies of 0..6 symbolic bytes incl. two byte values >= 0x80 (Latin-1 coding modelled exactly: one or two UTF-8 bytes per byte): output, Content-Length, Content-Encoding",
			"thorough": "bodies up to 13 symbolic bytes; every k in -2..9",
		},
		Outside:     []string{"gzip decompression, the x/text Latin-1 coding (bytes >= 0x80 become two bytes in the decoded string, so the window counts decoded bytes) and the content-script template: replaced by contracts: identity decompression, exact Latin-1 coding written in the harness, fixed tag", "bodies other than the two shapes"},
		Assumptions: []string{"strings.EqualFold on ASCII"},
		Rule:        "body bytes symbolic; one state per feasible path of the scan",
	})
}
