package main

import (
	"encoding/json"
	"fmt"

	"verif/engine/sym"

	"github.com/AdguardTeam/urlfilter/rules"
)

var c15Menu = []string{
	"##.g",
	"##.h",
	"zq.com##.a",
	"zq.com##.g",
	"q.zq.com##.b",
	"zq.com,z.org##.a",
	"~zq.com##.g",
	"zq.com,~q.zq.com##.a",
	"zq.*##.a",
	"zq.co.uk##.b",
	"zq.com#@#.a",
	"zq.com#@#.g",
	"q.zq.com#@#.a",
	"zq.*#@#.g",
	"zq##.a",
	"##.a",
	"zq.com,~q.zq.com#@#.a",
	"zq.com,~q.zq.com#@#.g",
}

func c15Lists(tier string) [][]string {
	var out [][]string
	n := len(c15Menu)
	for i := 0; i < n; i++ {
		out = append(out, []string{c15Menu[i]})
		for j := 0; j < n; j++ {
			if i != j {
				out = append(out, []string{c15Menu[i], c15Menu[j]})
			}
		}
	}
	triples := [][]int{{0, 2, 10}, {3, 0, 11}, {2, 5, 12}, {8, 13, 0}, {6, 3, 11}, {7, 10, 4}, {2, 2, 10}, {0, 0, 13},
		{15, 16, 10}, {15, 10, 16}, {2, 16, 10}, {0, 17, 11}, {0, 11, 17}, {16, 10, 15}}
	if tier == "thorough" {
		for i := 0; i < n; i++ {
			for j := i + 1; j < n; j++ {
				for k := j + 1; k < n; k += 3 {
					triples = append(triples, []int{i, j, k})
				}
			}
		}
	}
	for _, t := range triples {
		out = append(out, []string{c15Menu[t[0]], c15Menu[t[1]], c15Menu[t[2]]})
	}
	return out
}

func init() {
	register(&Spec{
		ID:       "C15",
		Pkgs:     []string{"root", "rules", "filterutil", "lookup", "filterlist"},
		InitPkgs: []string{"filterutil", "rules", "filterlist", "lookup", "root"},
		Prepare: func(rc *RunCtx) error {
			lists := c15Lists(rc.Tier)
			for _, l := range lists {
				for _, t := range l {
					if _, err := rules.NewCosmeticRule(t, 1); err != nil {
						return fmt.Errorf("menu rule rejected: %s: %v", t, err)
					}
				}
			}
			rc.Natives["lists"] = lists
			b, _ := json.Marshal(lists)
			rc.ReplayFiles["VERIF_LISTS"] = b
			return nil
		},
		Jobs: func(tier string) []Job {
			jobs := []Job{{Pkg: "root", Func: "verifC15Vacuity", Vacuity: true}}
			lists := curRun.Natives["lists"].([][]string)
			hosts := [][2]int64{{2, 1}, {4, 1}, {2, 2}, {1, 1}, {4, 0}, {102, 1}}
			if tier == "thorough" {
				hosts = append(hosts, [2]int64{5, 1}, [2]int64{6, 1}, [2]int64{4, 2}, [2]int64{2, 0})
			}
			for i := range lists {
				for _, h := range hosts {
					jobs = append(jobs, Job{Pkg: "root", Func: "verifC15", Args: []int64{int64(i), h[0], h[1]}})
				}
			}
			return jobs
		},
		Setup: func(e *sym.Engine, st *sym.State, l *sym.Loaded) {
			setupDNS(e, st, l)
			lists := curRun.Natives["lists"].([][]string)
			e.Ctx["native:cosmetic"] = func(e *sym.Engine, st *sym.State, i, j int) sym.Value {
				r, err := rules.NewCosmeticRule(lists[i][j], 1)
				if err != nil {
					panic(err)
				}
				return e.ImportPtr(st, r, modPath+"/rules", "CosmeticRule")
			}
			e.Ctx["native:cosmeticcount"] = func(i int) int { return len(lists[i]) }
		},
		MustReach: []string{"c15.applies", "c15.excepted", "c15.warm"},
		Bounds: map[string]string{
			"quick":    "rule lists: every single rule and every ordered pair from a menu of 18 element-hiding rules (generic, one/two domains, negated domain, subdomain, wildcard TLD, multi-level suffix, exceptions with same/different selectors, duplicates) plus 8 triples, parsed by the real parser; hostname of 1,2,4 symbolic bytes over {z,q,.} plus a tail from {'', .com, .co.uk}; the three flags symbolic; GetCosmeticResult's option word fully symbolic; one variant per list in which the engine first answers another query (symbolic hostname and flags) whose result the caller overwrites",
			"thorough": "plus systematic triples and hostnames up to 6 symbolic bytes",
		},
		Outside:     []string{"CSS and JS rule types (not implemented upstream)", "hostnames beyond the bound", "the storage scanner (stubbed as perfect)"},
		Assumptions: []string{"reference = CosmeticRule.Match over all rules minus exceptions with equal content that match (C04 covers the domain semantics inside Match)", "PSL model"},
		Rule:        "outer enumeration of concrete rule lists (parsed natively); hostname and flags symbolic",
	})
}
