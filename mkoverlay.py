#!/usr/bin/env python3
"""Writes /verif/bin/build_overlay.json: harness files + generated lib for every package,
so that the engine binary (which links /repo natively) can call exported harness shims."""
import glob, json, os
REPO = os.environ.get("VERIF_REPO", "/repo")
OUT = os.environ.get("VERIF_BIN", "/verif/bin")
PK = {"root": ("", "urlfilter"), "rules": ("rules", "rules"), "lookup": ("lookup", "lookup"),
      "filterlist": ("filterlist", "filterlist"), "filterutil": ("filterutil", "filterutil"), "proxy": ("proxy", "proxy")}
os.makedirs(OUT + "/ov", exist_ok=True)
tmpl = open("/verif/harness/lib.go.tmpl").read()
rep = {}
for d, (sub, name) in PK.items():
    files = sorted(glob.glob(f"/verif/harness/{d}/*.go"))
    if not files:
        continue
    lib = f"{OUT}/ov/{d}_zz_verif_lib.go"
    open(lib, "w").write(tmpl.replace("package PKGNAME", "package " + name))
    rep[os.path.join(REPO, sub, "zz_verif_lib.go")] = lib
    for f in files:
        rep[os.path.join(REPO, sub, os.path.basename(f))] = f
json.dump({"Replace": rep}, open(OUT + "/build_overlay.json", "w"), indent=1)
