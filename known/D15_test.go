package rules

import "testing"

// Witness of known finding D15 (property C03): the documented separator class of
// "^" is "any character but a letter, a digit, or one of _ - . %", which includes
// the space; the compiled class excludes it.  The test passes when the property holds.
func TestVerifKnownD15(t *testing.T) {
	r, err := NewNetworkRule("ab^$domain=x.com", 1)
	if err != nil {
		t.Fatal(err)
	}
	req := NewRequest("http://t.com/ab c", "http://x.com/", TypeScript)
	if !r.Match(req) {
		t.Fatal("the separator mark ^ does not accept a space")
	}
}
