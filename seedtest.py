#!/usr/bin/env python3
"""Confirms a seeded change and runs checks against it.

usage: seedtest.py <seed-dir> <property-it-breaks> [check ids...]

seed-dir holds patch.diff, demo_test.go and demo_path.txt (first line: "path: <repo-relative test path>").
1. in a scratch worktree: the demonstration passes without the patch; with the patch the whole
   test suite passes and the demonstration fails;
2. the patch is applied to /repo, the listed checks run (quick tier), /repo is restored.
Prints a JSON summary; never leaves /repo modified.
"""
import json, os, re, shutil, subprocess, sys, time

ENV = dict(os.environ, GOFLAGS="-mod=mod", GOPROXY="off", GOSUMDB="off", GOTOOLCHAIN="local")


def run(cmd, cwd, timeout=1800):
    t0 = time.time()
    try:
        p = subprocess.run(cmd, cwd=cwd, env=ENV, shell=isinstance(cmd, str), capture_output=True, text=True, errors="replace", timeout=timeout)
        return p.returncode, p.stdout + p.stderr, time.time() - t0
    except subprocess.TimeoutExpired as e:
        return 124, (e.stdout or "") + "\nTIMEOUT", time.time() - t0


def main():
    seed = os.path.abspath(sys.argv[1])
    prop = sys.argv[2]
    checks = sys.argv[3:] or [prop]
    lines = open(os.path.join(seed, "demo_path.txt")).read().splitlines()
    first = lines[0]
    race = ["-race"] if any(l.strip().lower().startswith("race: yes") for l in lines[:3]) else []
    m = re.search(r"([\w./-]+_test\.go)", first)
    demo_rel = m.group(1)
    pkg = "./" + os.path.dirname(demo_rel) if os.path.dirname(demo_rel) else "."
    src = open(os.path.join(seed, "demo_test.go")).read()
    tests = re.findall(r"^func (Test\w+)\(", src, re.M)
    run_re = "^(" + "|".join(tests) + ")$"
    wt = "/tmp/seedchk_%d" % os.getpid()
    out = {"seed": seed, "property": prop, "demo": demo_rel, "tests": tests}
    run(["git", "-C", "/repo", "worktree", "add", "-q", "--detach", wt, "HEAD"], "/repo")
    try:
        shutil.copy(os.path.join(seed, "demo_test.go"), os.path.join(wt, demo_rel))
        rc, o, _ = run(["go", "test"] + race + ["-vet=off", "-count=1", "-run", run_re, pkg], wt)
        out["demo_without_patch"] = "pass" if rc == 0 else "FAIL"
        rc, o, _ = run(["git", "apply", os.path.join(seed, "patch.diff")], wt)
        out["patch_applies"] = rc == 0
        if rc != 0:
            out["apply_output"] = o[-400:]
        os.remove(os.path.join(wt, demo_rel))
        rc, o, _ = run(["go", "test", "-vet=off", "-count=1", "./..."], wt)
        out["suite_with_patch"] = "pass" if rc == 0 else "FAIL"
        if rc != 0:
            out["suite_output"] = o[-600:]
        shutil.copy(os.path.join(seed, "demo_test.go"), os.path.join(wt, demo_rel))
        rc, o, _ = run(["go", "test"] + race + ["-vet=off", "-count=1", "-run", run_re, pkg], wt)
        out["demo_with_patch"] = "fail (as required)" if rc != 0 else "PASSES (seed not effective)"
    finally:
        run(["git", "-C", "/repo", "worktree", "remove", "--force", wt], "/repo")
    confirmed = out.get("demo_without_patch") == "pass" and out.get("suite_with_patch") == "pass" and out.get("demo_with_patch", "").startswith("fail")
    out["confirmed"] = confirmed
    out["checks"] = {}
    if confirmed and "--no-checks" not in sys.argv:
        # the checks run against a second scratch worktree with the patch applied (VERIF_REPO), /repo is not touched
        wt2 = "/tmp/seedrepo_%d" % os.getpid()
        run(["git", "-C", "/repo", "worktree", "add", "-q", "--detach", wt2, "HEAD"], "/repo")
        try:
            rc, o, _ = run(["git", "apply", os.path.join(seed, "patch.diff")], wt2)
            env2 = dict(ENV, VERIF_REPO=wt2)
            for c in checks:
                if c.startswith("--"):
                    continue
                t0 = time.time()
                try:
                    p = subprocess.run(["./check", c, "quick"], cwd="/verif", env=env2, capture_output=True, text=True, errors="replace", timeout=3000)
                    rc, o = p.returncode, p.stdout + p.stderr
                except subprocess.TimeoutExpired as e:
                    rc, o = 124, (e.stdout or "") + "TIMEOUT"
                secs = time.time() - t0
                viol = [l for l in o.splitlines() if l.startswith("VIOLATION")]
                detail = [l.strip() for l in o.splitlines() if l.strip().startswith("assertion:")][:3]
                infra = [l for l in o.splitlines() if l.startswith("INFRA")][:3]
                out["checks"][c] = {"exit": rc, "violations": len(viol), "seconds": round(secs, 1), "detail": [d[:300] for d in detail], "infra": [i[:300] for i in infra]}
        finally:
            run(["git", "-C", "/repo", "worktree", "remove", "--force", wt2], "/repo")
    print(json.dumps(out, indent=1))


if __name__ == "__main__":
    main()
