#!/usr/bin/env python3
"""Regenerates the table of seeded changes in DESIGN.md (between SEEDED-BEGIN / SEEDED-END) from seeded/*/meta.json."""
import json, os, re
rows, missed, undetected = [], 0, 0
for name in sorted(os.listdir('/verif/seeded')):
    m = json.load(open('/verif/seeded/%s/meta.json' % name))
    h = m['history'].strip()
    if not m['caught_by_checks']:
        undetected += 1
        fr = re.sub(r'\s+', ' ', h.split(';')[0])
        if len(fr) > 220:
            fr = fr[:217] + '...'
        rows.append('| %s | %s | **none** | %s |' % (name, m['breaks_property'], fr.replace('|', '\\|')))
        continue
    if h.startswith('caught as built'):
        fr = 'caught'
    else:
        missed += 1
        fr = re.sub(r'\s+', ' ', h.split(';')[0])
        if len(fr) > 150:
            fr = fr[:147] + '...'
    rows.append('| %s | %s | %s | %s |' % (name, m['breaks_property'], ', '.join(m['caught_by_checks']), fr.replace('|', '\\|')))
n = len(rows)
s = open('/verif/DESIGN.md').read()
a, b = s.index('<!-- SEEDED-BEGIN -->'), s.index('<!-- SEEDED-END -->')
body = '''<!-- SEEDED-BEGIN -->
%d changes were written in nine rounds by fresh sub-agents that saw only the property
text and a scratch worktree under `/tmp` (nothing from `/verif`).  Each was confirmed
with `seedtest.py` (demonstration passes without the patch; with the patch the whole
suite passes and the demonstration fails); the checks then ran against a second scratch
worktree carrying the patch (`VERIF_REPO=<dir> ./check <id>`; the first rounds applied the
patch to `/repo` and undid it straight afterwards) -- `/repo` never keeps one.  **%d
are caught with a natively replayed `VIOLATION`%s; %d were not caught on the first run**
(missed, found only symbolically, found only by a sibling check, or the encoder stopped
with an error, which is exit 2 and not a detection) and each of those led to a
strengthening that stays in the registered check (full story in each `meta.json`):

| seeded change | property | caught by | first run |
|---------------|----------|-----------|-----------|
%s

''' % (n, n - undetected, (', %d not detected' % undetected) if undetected else '', missed, '\n'.join(rows))
s = s[:a] + body + s[b:]
s = re.sub(r'/verif/seeded/<name>/ +\d+ seeded changes', '/verif/seeded/<name>/                %d seeded changes' % n, s)
open('/verif/DESIGN.md', 'w').write(s)
print(n, 'seeded changes,', missed, 'not caught on the first run')
