#!/bin/sh
# usage: run_all.sh <tier> [timeout-seconds-per-check]  -- runs every check and prints one line per check
tier=${1:-quick}
to=${2:-3000}
cd /verif
for c in C16 C07 C08 C09 C06 C18 C17 C10 C19 C01 C04 C13 C15 C12 C11 C20 C14 C02 C03 C05; do
  s=$(date +%s)
  out=$(timeout $to ./check $c $tier 2>&1)
  rc=$?
  e=$(date +%s)
  echo "$c $tier exit=$rc secs=$((e-s)) :: $(echo "$out" | grep -c '^VIOLATION') violations :: $(echo "$out" | grep '^INFRA' | head -2 | cut -c1-200 | tr '\n' ' ')"
done
