package urlfilter_test

// Stress tests used to replay a potential data race reported by the C14 check
// under the Go race detector (go test -race).  They use the public API only.

import (
	"os"
	"sync"
	"testing"

	"github.com/AdguardTeam/urlfilter"
	"github.com/AdguardTeam/urlfilter/filterlist"
	"github.com/AdguardTeam/urlfilter/rules"
)

const verifRaceText = "||a.org^\n||b.org^\n127.0.0.1 zq.org\n/a.*b/$domain=x.com\n"

func verifRaceLists(t *testing.T, file bool) []filterlist.RuleList {
	if !file {
		return []filterlist.RuleList{&filterlist.StringRuleList{ID: 1, RulesText: verifRaceText}}
	}
	f, err := os.CreateTemp(t.TempDir(), "rules")
	if err != nil {
		t.Fatal(err)
	}
	f.WriteString(verifRaceText)
	f.Close()
	l, err := filterlist.NewFileRuleList(1, f.Name(), false)
	if err != nil {
		t.Fatal(err)
	}
	return []filterlist.RuleList{l}
}

func verifRaceRun(t *testing.T, file bool) {
	for round := 0; round < 200; round++ {
		s, err := filterlist.NewRuleStorage(verifRaceLists(t, file))
		if err != nil {
			t.Fatal(err)
		}
		dns := urlfilter.NewDNSEngine(s)
		net := urlfilter.NewNetworkEngine(s)
		var wg sync.WaitGroup
		for g := 0; g < 4; g++ {
			wg.Add(1)
			go func(g int) {
				defer wg.Done()
				for i := 0; i < 3; i++ {
					dns.MatchRequest(&urlfilter.DNSRequest{Hostname: []string{"a.org", "zq.org", "b.org"}[(g+i)%3], ClientName: "c"})
					net.MatchAll(rules.NewRequest("http://a.org/axxb", "http://x.com/", rules.TypeScript))
				}
			}(g)
		}
		wg.Wait()
		s.Close()
	}
}

func TestVerifRaceString(t *testing.T) { verifRaceRun(t, false) }
func TestVerifRaceFile(t *testing.T)   { verifRaceRun(t, true) }
