#!/usr/bin/env python3
"""Regenerates the section of DESIGN.md that lists the registered bounds of every check
(between the markers BOUNDS-BEGIN / BOUNDS-END) from the engine's own tables."""
import os, subprocess, sys
env = dict(os.environ, GOFLAGS="-mod=mod", GOPROXY="off", GOSUMDB="off", GOTOOLCHAIN="local", VERIF_BIN="/verif/bin")
subprocess.run(["python3", "/verif/mkoverlay.py"], check=True, env=env)
subprocess.run(["go", "build", "-overlay", "/verif/bin/build_overlay.json", "-o", "/verif/bin/gosym", "."], cwd="/verif/engine", check=True, env=env)
out = subprocess.run(["/verif/bin/gosym", "bounds"], capture_output=True, text=True, check=True).stdout
s = open("/verif/DESIGN.md").read()
a, b = s.index("<!-- BOUNDS-BEGIN -->"), s.index("<!-- BOUNDS-END -->")
s = s[:a] + "<!-- BOUNDS-BEGIN -->\n\n" + out + s[b:]
open("/verif/DESIGN.md", "w").write(s)
print("bounds section regenerated:", len(out), "bytes")
