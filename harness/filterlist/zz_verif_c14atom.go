package filterlist

import (
	"github.com/AdguardTeam/urlfilter/rules"
)

// C14, second half: "every concurrent query returns what the same query returns
// sequentially".  Race freedom (the happens-before queries) reduces concurrent
// executions to interleavings of critical sections; here one operation runs and,
// after the verifYieldAt-th release of a mutex (a solver variable), the whole
// operation of another goroutine runs on the same objects.  Both answers must be
// the ones of a sequential run on fresh objects.

func verifSameAnswer(r rules.Rule, err error, w rules.Rule, werr error) bool {
	if (err == nil) != (werr == nil) {
		return false
	}
	if (r == nil) != (w == nil) {
		return false
	}
	if r == nil {
		return true
	}
	return r.Text() == w.Text() && r.GetFilterListID() == w.GetFilterListID()
}

// three lines of nine bytes; the letters are symbolic
func verifC14AtomText() string {
	return "||" + verifString("l0", 1, "ab") + ".org^\n||" + verifString("l1", 1, "ab") + ".net^\n||" + verifString("l2", 1, "ab") + ".com^\n"
}

// verifC14AtomFile: two FileRuleList.RetrieveRule calls on one handle and buffer.
func verifC14AtomFile(bufLen int) {
	text := verifC14AtomText()
	offs := []int{0, 9, 18}
	a := offs[verifChoice("a", 3)]
	b := offs[verifChoice("b", 3)]
	ref := verifNewFileList(1, verifFile(text), bufLen)
	wa, wea := ref.RetrieveRule(a)
	wb, web := ref.RetrieveRule(b)
	l := verifNewFileList(1, verifFile(text), bufLen)
	if !verifSymbolic() {
		ok := verifStress(20000, func() bool {
			r, err := l.RetrieveRule(a)
			return verifSameAnswer(r, err, wa, wea)
		}, func() bool {
			r, err := l.RetrieveRule(b)
			return verifSameAnswer(r, err, wb, web)
		})
		verifAssert(ok, "c14: a query interleaved with another query returns its sequential answer")
		return
	}
	var rb rules.Rule
	var eb error
	ran := false
	verifYieldAt = verifU8("yieldAt")
	verifOther = func() {
		rb, eb = l.RetrieveRule(b)
		ran = true
	}
	ra, ea := l.RetrieveRule(a)
	verifOther = nil
	verifReach("c14.atom.file")
	verifAssert(verifSameAnswer(ra, ea, wa, wea), "c14: a query interleaved with another query returns its sequential answer")
	if ran {
		verifReach("c14.atom.interleaved")
		verifAssert(verifSameAnswer(rb, eb, wb, web), "c14: the interleaving query returns its sequential answer")
	}
}

// verifC14AtomStorage: two RuleStorage.RetrieveRule calls; kind 0: in-memory list,
// kind 1/2: file-backed list with a read buffer of 8/16 bytes; warm: whether the
// first index is already cached.
func verifC14AtomStorage(kind, warm int) {
	text := verifC14AtomText()
	mk := func() *RuleStorage {
		var l RuleList
		switch kind {
		case 0:
			l = &StringRuleList{ID: 1, RulesText: text}
		case 1:
			l = verifNewFileList(1, verifFile(text), 8)
		default:
			l = verifNewFileList(1, verifFile(text), 16)
		}
		s, err := NewRuleStorage([]RuleList{l})
		if err != nil {
			panic(err)
		}
		return s
	}
	idx := []int64{ruleListIdxToStorageIdx(1, 0), ruleListIdxToStorageIdx(1, 9), ruleListIdxToStorageIdx(1, 18)}
	a := idx[verifChoice("a", 3)]
	b := idx[verifChoice("b", 3)]
	ref := mk()
	wa, wea := ref.RetrieveRule(a)
	wb, web := ref.RetrieveRule(b)
	s := mk()
	if warm == 1 {
		_, _ = s.RetrieveRule(idx[0])
	}
	if !verifSymbolic() {
		ok := verifStress(20000, func() bool {
			r, err := s.RetrieveRule(a)
			return verifSameAnswer(r, err, wa, wea)
		}, func() bool {
			r, err := s.RetrieveRule(b)
			return verifSameAnswer(r, err, wb, web)
		})
		verifAssert(ok, "c14: a query interleaved with another query returns its sequential answer")
		return
	}
	var rb rules.Rule
	var eb error
	ran := false
	verifYieldAt = verifU8("yieldAt")
	verifOther = func() {
		rb, eb = s.RetrieveRule(b)
		ran = true
	}
	ra, ea := s.RetrieveRule(a)
	verifOther = nil
	verifReach("c14.atom.storage")
	verifAssert(verifSameAnswer(ra, ea, wa, wea), "c14: a query interleaved with another query returns its sequential answer")
	if ran {
		verifReach("c14.atom.interleaved")
		verifAssert(verifSameAnswer(rb, eb, wb, web), "c14: the interleaving query returns its sequential answer")
	}
}

// VerifFileList is a file-backed list over the file model (natively a temp file).
func VerifFileList(text string, bufLen int) *FileRuleList {
	return verifNewFileList(1, verifFile(text), bufLen)
}
