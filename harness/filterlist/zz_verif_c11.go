package filterlist

import (
	"os"
	"strings"

	"github.com/AdguardTeam/urlfilter/rules"
)

// C11 — every scanned rule can be retrieved by its index from any backing store.

// verifC11Packing: the storage index packs (list id, offset) injectively for all int32 pairs.
func verifC11Packing() {
	l1, r1 := int32(verifU32("l1")), int32(verifU32("r1"))
	l2, r2 := int32(verifU32("l2")), int32(verifU32("r2"))
	i1 := ruleListIdxToStorageIdx(l1, r1)
	i2 := ruleListIdxToStorageIdx(l2, r2)
	gl, gr := storageIdxToRuleListIdx(i1)
	verifReach("c11.packing")
	verifAssert(gl == l1 && gr == r1, "c11: unpack(pack(list, offset)) == (list, offset) for all int32 pairs")
	verifAssert(i1 != i2 || (l1 == l2 && r1 == r2), "c11: the storage index is injective over (list, offset)")
	// the scanner narrows int list ids and offsets: identity on the int32 domain
	id := int(int32(verifU32("id")))
	off := int(verifU32("off") & 0x7fffffff)
	verifAssert(int(int32(id)) == id && int(int32(off)) == off, "c11: narrowing is the identity on list ids in int32 and offsets below 2^31")
}

// verifNewRuleStub replaces rules.NewRule in the scanner harnesses: the real
// prefix (TrimSpace, blank lines) and then an uninterpreted classification of the
// trimmed line into nothing / error / one of the three rule kinds.
func verifNewRuleStub(line string, id int) (rules.Rule, error) {
	line = strings.TrimSpace(line)
	if line == "" {
		return nil, nil
	}
	if len(line) > 64 && line[0] == '!' {
		// a long comment of the harnesses: '!' and a run of 'a' (checked against the real parser by the driver)
		rest := true
		for i := 1; i < len(line); i++ {
			if line[i] != 'a' {
				rest = false
			}
		}
		if rest {
			return nil, nil
		}
	}
	if len(line) > 64 {
		// the long lines of the harnesses are runs of 'a': a network rule (checked against the real parser by the driver)
		allA := true
		for i := 0; i < len(line); i++ {
			if line[i] != 'a' {
				allA = false
			}
		}
		if allA {
			return &rules.NetworkRule{RuleText: line, FilterListID: id}, nil
		}
	}
	switch verifUFStr("classify", line) & 7 { // no division: a remainder by 5 stalls the bit-blaster
	case 0:
		return nil, nil
	case 1:
		return nil, ErrRuleRetrieval
	case 2:
		return &rules.HostRule{RuleText: line, FilterListID: id}, nil
	case 3:
		return &rules.NetworkRule{RuleText: line, FilterListID: id}, nil
	}
	return &rules.CosmeticRule{RuleText: line, FilterListID: id}, nil
}

// verifUFStr is intercepted by the executor; it is never called natively (rules.NewRule is real there).
func verifUFStr(name string, s string) uint64 { return 0 }

func verifKind(r rules.Rule) int {
	switch r.(type) {
	case *rules.HostRule:
		return 1
	case *rules.NetworkRule:
		return 2
	case *rules.CosmeticRule:
		return 3
	}
	return 0
}

type verifScanned struct {
	kind int
	text string
	id   int
	idx  int
}

// verifRefParse: the content parsed line by line (the reference).
func verifRefParse(content string, id int, ignoreCosmetic bool) []verifScanned {
	var out []verifScanned
	start := 0
	for start < len(content) {
		end := start
		for end < len(content) && content[end] != '\n' {
			end++
		}
		next := end
		if next < len(content) {
			next++ // the newline belongs to the line
		}
		r, err := rules.NewRule(content[start:end], id)
		if r != nil && err == nil {
			if _, cosm := r.(*rules.CosmeticRule); !(cosm && ignoreCosmetic) {
				out = append(out, verifScanned{verifKind(r), r.Text(), r.GetFilterListID(), start})
			}
		}
		start = next
	}
	return out
}

// verifC11String: scanning an in-memory list == parsing it line by line, and every
// yielded index retrieves the same rule.
func verifC11String(n int, ignoreCosmetic int) {
	// with the classification table of the driver (real NewRule on every line over {a,#,space}) a
	// counterexample is replayable; lines outside the table stay uninterpreted
	verifC11StringBody(verifString("content", n, "a# \n\r"), n, ignoreCosmetic)
}

// verifC11BOM: the same for a list that starts with a UTF-8 byte order mark (three concrete
// non-ASCII bytes, then n symbolic ones): the mark is part of the first line for the scanner
// and for retrieval alike.
func verifC11BOM(n int) {
	verifC11StringBody("\xef\xbb\xbf"+verifString("content", n, "a\n"), n+3, 0)
}

func verifC11StringBody(content string, n int, ignoreCosmetic int) {
	id := 3
	l := &StringRuleList{ID: id, RulesText: content, IgnoreCosmetic: ignoreCosmetic != 0}
	want := verifRefParse(content, id, l.IgnoreCosmetic)
	sc := l.NewScanner()
	var got []verifScanned
	for sc.Scan() {
		r, idx := sc.Rule()
		got = append(got, verifScanned{verifKind(r), r.Text(), r.GetFilterListID(), idx})
		verifAssert(len(got) <= n+1, "c11: the scanner terminates")
	}
	verifAssert(len(got) == len(want), "c11: scanned sequence == reference parse (count)")
	if len(got) == len(want) {
		for i := range got {
			verifReach("c11.scanned")
			verifAssert(got[i].kind == want[i].kind && got[i].text == want[i].text && got[i].id == want[i].id && got[i].idx == want[i].idx,
				"c11: scanned sequence == reference parse (kind, text, list id, index)")
			r, err := l.RetrieveRule(got[i].idx)
			verifAssert(err == nil && r != nil && verifKind(r) == got[i].kind && r.Text() == got[i].text && r.GetFilterListID() == id,
				"c11: RetrieveRule(idx) returns the scanned rule")
		}
	}
	// line endings and inert lines: the same content with CRLF line ends yields the same rules
	crlf := strings.ReplaceAll(content, "\n", "\r\n")
	want2 := verifRefParse(crlf, id, l.IgnoreCosmetic)
	verifAssert(len(want2) == len(want), "c12: switching line endings does not change the rules (count)")
	if len(want2) == len(want) {
		for i := range want {
			verifAssert(want2[i].kind == want[i].kind && want2[i].text == want[i].text, "c12: switching line endings does not change the rules")
		}
	}
}

// verifIDList: a list with a given id that records which index it was asked for.
type verifIDList struct {
	id      int
	asked   int
	calls   int
}

func (l *verifIDList) GetID() int               { return l.id }
func (l *verifIDList) NewScanner() *RuleScanner { return NewRuleScanner(strings.NewReader(""), l.id, false) }
func (l *verifIDList) Close() error             { return nil }
func (l *verifIDList) RetrieveRule(ruleIdx int) (rules.Rule, error) {
	l.asked = ruleIdx
	l.calls++
	return &rules.HostRule{RuleText: "h", FilterListID: l.id}, nil
}

// verifC11Storage: 1..3 lists with arbitrary int32 ids: duplicates are rejected, and an
// index built from (id_j, offset) is served by list j with that offset.
func verifC11Storage(k int) {
	ls := make([]*verifIDList, k)
	lists := make([]RuleList, k)
	distinct := true
	for i := range ls {
		ls[i] = &verifIDList{id: int(int32(verifU32(vn("id", i, ""))))}
		lists[i] = ls[i]
		for j := 0; j < i; j++ {
			if ls[j].id == ls[i].id {
				distinct = false
			}
		}
	}
	s, err := NewRuleStorage(lists)
	verifAssert(err == nil || !distinct, "c11: a storage is built when the list ids are distinct")
	if err != nil {
		verifReach("c11.duplicate")
		return
	}
	j := verifChoice("which", k)
	off := int32(verifU32("off") & 0x7fffffff)
	idx := ruleListIdxToStorageIdx(int32(ls[j].id), off)
	r, e := s.RetrieveRule(idx)
	verifReach("c11.storage")
	verifAssert(e == nil && r != nil && r.GetFilterListID() == ls[j].id, "c11: the index is served by the list it names")
	verifAssert(ls[j].calls == 1 && ls[j].asked == int(off), "c11: the list is asked for the offset packed in the index")
}

func verifC11Vacuity() {
	l := &StringRuleList{ID: 1, RulesText: verifString("content", 3, "a\n")}
	sc := l.NewScanner()
	for sc.Scan() {
	}
	verifAssert(false, "vacuity")
}

// verifFileShort is intercepted by the executor (file model with short reads); natively a temp file.
func verifFileShort(content string) *os.File { return verifFile(content) }

// verifC11File: a file-backed list and an in-memory list with the same content are
// indistinguishable: RetrieveRule at every offset and the scanned sequence.  The read
// buffer is shrunk to bufLen bytes so that lines straddle reads, and every read may be short.
func verifC11File(n, bufLen int) {
	content := verifString("content", n, "a \n\r")
	mem := &StringRuleList{ID: 3, RulesText: content}
	fl := verifNewFileList(3, verifFileShort(content), bufLen)
	for idx := 0; idx <= n; idx++ {
		r1, e1 := mem.RetrieveRule(idx)
		r2, e2 := fl.RetrieveRule(idx)
		verifReach("c11.file")
		verifAssert((e1 == nil) == (e2 == nil), "c11: file-backed and in-memory RetrieveRule fail together")
		if e1 == nil && e2 == nil {
			verifAssert((r1 == nil) == (r2 == nil), "c11: file-backed and in-memory RetrieveRule agree on nothing/rule")
			if r1 != nil && r2 != nil {
				verifAssert(verifKind(r1) == verifKind(r2) && r1.Text() == r2.Text() && r2.GetFilterListID() == 3, "c11: file-backed RetrieveRule == in-memory RetrieveRule")
			}
		}
	}
	_, e := fl.RetrieveRule(-1)
	verifAssert(e != nil, "c11: a negative index is an error")
}

// verifC11FileSeq: two retrievals in a row from one file-backed list (the read buffer is
// reused: what an earlier retrieval left in it must not leak into a later one), content of
// n bytes over {a, LF}, any two offsets in either order, full reads.
func verifC11FileSeq(n, bufLen int) {
	content := verifString("content", n, "a\n")
	mem := &StringRuleList{ID: 3, RulesText: content}
	fl := verifNewFileList(3, verifFile(content), bufLen)
	first := verifChoice("first", n+1)
	second := verifChoice("second", n+1)
	_, _ = fl.RetrieveRule(first)
	r1, e1 := mem.RetrieveRule(second)
	r2, e2 := fl.RetrieveRule(second)
	verifReach("c11.fileseq")
	verifAssert((e1 == nil) == (e2 == nil), "c11: file-backed and in-memory RetrieveRule fail together")
	if e1 == nil && e2 == nil {
		verifAssert((r1 == nil) == (r2 == nil), "c11: file-backed and in-memory RetrieveRule agree on nothing/rule")
		if r1 != nil && r2 != nil {
			verifAssert(verifKind(r1) == verifKind(r2) && r1.Text() == r2.Text() && r2.GetFilterListID() == 3, "c11: file-backed RetrieveRule == in-memory RetrieveRule")
		}
	}
}

// verifC11FileScan: scanning the file-backed list == scanning the in-memory list.
func verifC11FileScan(n int) {
	content := verifString("content", n, "a \n\r")
	mem := &StringRuleList{ID: 3, RulesText: content}
	fl := verifNewFileList(3, verifFile(content), 4)
	s1, s2 := mem.NewScanner(), fl.NewScanner()
	for i := 0; i <= n; i++ {
		a, b := s1.Scan(), s2.Scan()
		verifAssert(a == b, "c11: file-backed and in-memory scans yield the same number of rules")
		if !a || !b {
			break
		}
		r1, i1 := s1.Rule()
		r2, i2 := s2.Rule()
		verifReach("c11.filescan")
		verifAssert(i1 == i2 && verifKind(r1) == verifKind(r2) && r1.Text() == r2.Text(), "c11: file-backed and in-memory scans yield the same rules and indexes")
	}
	// a closed file: retrieval is an error, not a crash (C19)
	_ = fl.Close()
	_, e := fl.RetrieveRule(0)
	verifAssert(e != nil, "c19: retrieval from a closed file is an error")
}

// verifC11Long: scanning a list with a line about as long as the scanner's read
// buffer: a filler of readerBufferSize-4+k bytes, four symbolic bytes over {a, LF}
// and a last byte.  Observed through the public scanner only: the scanned sequence
// equals the reference parse (kind, text, list id, index of the first byte of the
// line) however long a line is, and every index retrieves its rule.
func verifC11Long(k int) {
	// k >= 100: the long line is a comment ('!' first): it and its tail yield nothing
	first := "a"
	if k >= 100 {
		k -= 100
		first = "!"
	}
	n := readerBufferSize - 4 + k
	content := first + strings.Repeat("a", n-1) + verifString("mid", 4, "a\n") + "a"
	l := &StringRuleList{ID: 3, RulesText: content}
	want := verifRefParse(content, 3, false)
	sc := l.NewScanner()
	var got []verifScanned
	for sc.Scan() {
		r, idx := sc.Rule()
		got = append(got, verifScanned{verifKind(r), r.Text(), r.GetFilterListID(), idx})
		verifAssert(len(got) <= 8, "c11: the scanner terminates")
	}
	verifReach("c11.long")
	verifAssert(len(got) == len(want), "c11: scanned sequence == reference parse (count)")
	if len(got) == len(want) {
		for i := range got {
			verifAssert(got[i].kind == want[i].kind && got[i].text == want[i].text && got[i].id == want[i].id && got[i].idx == want[i].idx,
				"c11: scanned sequence == reference parse (kind, text, list id, index)")
			r, err := l.RetrieveRule(got[i].idx)
			verifAssert(err == nil && r != nil && verifKind(r) == got[i].kind && r.Text() == got[i].text,
				"c11: RetrieveRule(idx) returns the scanned rule")
		}
	}
}

// verifC11MultiScan: the storage scanner over k in-memory lists (ids 1..k) of n
// symbolic bytes each yields the rules of every list, in list order, each with the
// storage index of (its list, its offset) - also when lists in the middle yield nothing.
func verifC11MultiScan(k, n int) {
	lists := make([]RuleList, k)
	var want []verifScanned
	for i := 0; i < k; i++ {
		content := verifString(vn("content", i, ""), n, "a#\n")
		lists[i] = &StringRuleList{ID: i + 1, RulesText: content}
		want = append(want, verifRefParse(content, i+1, false)...)
	}
	s, err := NewRuleStorage(lists)
	verifAssert(err == nil, "c11: a storage is built when the list ids are distinct")
	sc := s.NewRuleStorageScanner()
	i := 0
	for sc.Scan() {
		r, idx := sc.Rule()
		verifAssert(i < len(want), "c11: storage scan == concatenation of the lists' rules (count)")
		if i >= len(want) {
			return
		}
		verifReach("c11.multiscan")
		verifAssert(verifKind(r) == want[i].kind && r.Text() == want[i].text && r.GetFilterListID() == want[i].id,
			"c11: storage scan == concatenation of the lists' rules (kind, text, list id)")
		verifAssert(idx == ruleListIdxToStorageIdx(int32(want[i].id), int32(want[i].idx)), "c11: the reported storage index packs (list, offset) of the rule")
		got, e := s.RetrieveRule(idx)
		verifAssert(e == nil && got != nil && got.Text() == want[i].text && got.GetFilterListID() == want[i].id, "c11: RetrieveRule(idx) returns the scanned rule")
		i++
		verifAssert(i <= k*(n+1), "c11: the scanner terminates")
	}
	verifAssert(i == len(want), "c11: storage scan == concatenation of the lists' rules (count)")
}
