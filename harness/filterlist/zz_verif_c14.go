package filterlist

import (
	"os"
)

// C14 — concurrent queries.  Each function builds a shared pre-state, calls
// verifShared() and then performs ONE operation as one goroutine would; the
// executor records its lock events and its reads/writes of shared locations on
// every path.  The driver then asks the solver, for every pair of recorded
// traces, whether two conflicting accesses can be unordered by happens-before.

// verifFile is intercepted by the executor (file model); natively a temp file.
func verifFile(content string) *os.File {
	f, err := os.CreateTemp("", "verif-c14-")
	if err != nil {
		panic(err)
	}
	if _, err = f.WriteString(content); err != nil {
		panic(err)
	}
	return f
}

const verifC14Text = "||a.org^\n||b.org^\n||c.org^\n"

// verifC14Storage: RuleStorage.RetrieveRule on a cold (warm==0) or warm cache.
func verifC14Storage(warm int) {
	l := &StringRuleList{ID: 1, RulesText: verifC14Text}
	s, _ := NewRuleStorage([]RuleList{l})
	idx := []int64{ruleListIdxToStorageIdx(1, 0), ruleListIdxToStorageIdx(1, 9), ruleListIdxToStorageIdx(1, 18)}
	// the pre-state: one index already materialised (the one the operations use when warm)
	if warm == 1 {
		_, _ = s.RetrieveRule(idx[0])
	} else {
		_, _ = s.RetrieveRule(idx[2])
	}
	verifShared()
	op := verifChoice("op", 2)
	_, _ = s.RetrieveRule(idx[op])
	verifReach("c14.storage")
}

// verifC14File: FileRuleList.RetrieveRule on a shared file handle and read buffer.
func verifC14File(bufLen int) {
	// bufLen 8: a line spans two reads; bufLen 16: a line arrives in one read
	l := verifNewFileList(1, verifFile(verifC14Text), bufLen)
	verifShared()
	off := []int{0, 9}[verifChoice("op", 2)]
	_, _ = l.RetrieveRule(off)
	verifReach("c14.file")
}

// verifC14StorageFile: the storage on top of a file-backed list (cache miss goes to the file).
func verifC14StorageFile(bufLen int) {
	l := verifNewFileList(1, verifFile(verifC14Text), bufLen)
	s, _ := NewRuleStorage([]RuleList{l})
	verifShared()
	off := []int32{0, 9}[verifChoice("op", 2)]
	_, _ = s.RetrieveRule(ruleListIdxToStorageIdx(1, off))
	verifReach("c14.storagefile")
}
