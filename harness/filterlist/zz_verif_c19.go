package filterlist

import (
	"github.com/AdguardTeam/urlfilter/rules"
)

// verifFaultyList is a rule list whose every retrieval may fail.
type verifFaultyList struct {
	id    int
	calls int
	name  string
}

func (l *verifFaultyList) GetID() int               { return l.id }
func (l *verifFaultyList) NewScanner() *RuleScanner { return nil }
func (l *verifFaultyList) Close() error             { return nil }

func (l *verifFaultyList) RetrieveRule(ruleIdx int) (rules.Rule, error) {
	l.calls++
	if verifBool(vn(l.name+".fail", l.calls, "")) {
		return nil, ErrRuleRetrieval
	}
	return &rules.HostRule{RuleText: vn("rule", ruleIdx, ""), FilterListID: l.id}, nil
}

// verifC19Storage: a sequence of k retrievals of two indexes from a storage whose
// list may fail at any call: no crash; a failure never enters the cache; an index
// that was retrieved once is served from then on, whatever the list does later.
func verifC19Storage(k int) {
	l := &verifFaultyList{id: 3, name: "l"}
	s, err := NewRuleStorage([]RuleList{l})
	verifAssert(err == nil, "c19: storage is built")
	idxA := ruleListIdxToStorageIdx(3, 10)
	idxB := ruleListIdxToStorageIdx(3, 20)
	var haveA, haveB rules.Rule
	for i := 0; i < k; i++ {
		idx := idxA
		have := haveA
		if verifBool(vn("pick", i, "")) {
			idx, have = idxB, haveB
		}
		r, e := s.RetrieveRule(idx)
		if have != nil {
			verifReach("c19.cached")
			verifAssert(e == nil && r == have, "c19: a rule materialised earlier is still served")
		} else if e != nil {
			verifReach("c19.failed")
			verifAssert(r == nil, "c19: a failed retrieval yields no rule")
		} else {
			verifAssert(r != nil && r.GetFilterListID() == 3, "c19: a successful retrieval yields the rule")
		}
		if e == nil && r != nil {
			if idx == idxA {
				haveA = r
			} else {
				haveB = r
			}
		}
	}
	// closing the storage does not take away what is already in memory
	_ = s.Close()
	if haveA != nil {
		verifReach("c19.afterclose")
		r, e := s.RetrieveRule(idxA)
		verifAssert(e == nil && r == haveA, "c19: a rule materialised before Close is still served after it")
	}
	// an unknown list id is an error, not a crash
	_, e := s.RetrieveRule(ruleListIdxToStorageIdx(4, 0))
	verifAssert(e != nil, "c19: an unknown list yields an error")
	verifAssert(s.RetrieveHostRule(ruleListIdxToStorageIdx(4, 0)) == nil, "c19: the typed helper returns nil on error")
	verifAssert(s.RetrieveNetworkRule(idxA) == nil, "c19: a host rule is not a network rule")
}

// verifC19File: a storage over a file-backed list whose file is closed under it.
// What was materialised before stays served; everything else is an error, never
// a crash and never a wrong rule.
func verifC19File(bufLen int) {
	text := "||" + verifString("l0", 1, "ab") + ".org^\n||b.net^\n"
	l := verifNewFileList(1, verifFile(text), bufLen)
	s, err := NewRuleStorage([]RuleList{l})
	verifAssert(err == nil, "c19: storage is built")
	a := ruleListIdxToStorageIdx(1, 0)
	b := ruleListIdxToStorageIdx(1, 9)
	var ra rules.Rule
	if verifBool("warmA") {
		ra, err = s.RetrieveRule(a)
		verifAssert(err == nil && ra != nil && ra.Text() == text[:8], "c19: the rule is read before the fault")
	}
	if verifBool("closeStorage") {
		_ = s.Close()
	} else {
		_ = l.File.Close() // the handle is closed behind the list's back
	}
	r, e := s.RetrieveRule(a)
	if ra != nil {
		verifReach("c19.file.cached")
		verifAssert(e == nil && r == ra, "c19: a rule materialised before Close is still served after it")
	} else {
		verifReach("c19.file.lost")
		verifAssert(e != nil && r == nil, "c19: a closed list yields an error and no rule")
	}
	r2, e2 := s.RetrieveRule(b)
	verifAssert(e2 != nil && r2 == nil, "c19: a closed list yields an error and no rule")
	verifAssert(s.RetrieveNetworkRule(b) == nil && s.RetrieveHostRule(b) == nil, "c19: the typed helpers return nil on error")
	// a failed retrieval of another rule does not take away what is in memory
	if ra != nil {
		r3, e3 := s.RetrieveRule(a)
		verifAssert(e3 == nil && r3 == ra, "c19: a rule materialised before the fault is still served after other retrievals have failed")
	}
	// the scanner of a closed list yields nothing
	sc := s.NewRuleStorageScanner()
	verifAssert(!sc.Scan(), "c19: scanning a closed list yields no rule")
}
