package filterlist

import (
	"github.com/AdguardTeam/urlfilter/rules"
)

// verifFaultyList is a rule list whose every retrieval may fail.
type verifFaultyList struct {
	id    int
	calls int
	name  string
}

func (l *verifFaultyList) GetID() int               { return l.id }
func (l *verifFaultyList) NewScanner() *RuleScanner { return nil }
func (l *verifFaultyList) Close() error             { return nil }

func (l *verifFaultyList) RetrieveRule(ruleIdx int) (rules.Rule, error) {
	l.calls++
	if verifBool(vn(l.name+".fail", l.calls, "")) {
		return nil, ErrRuleRetrieval
	}
	return &rules.HostRule{RuleText: vn("rule", ruleIdx, ""), FilterListID: l.id}, nil
}

// verifC19Storage: a sequence of k retrievals of two indexes from a storage whose
// list may fail at any call: no crash; a failure never enters the cache; an index
// that was retrieved once is served from then on, whatever the list does later.
func verifC19Storage(k int) {
	l := &verifFaultyList{id: 3, name: "l"}
	s, err := NewRuleStorage([]RuleList{l})
	verifAssert(err == nil, "c19: storage is built")
	idxA := ruleListIdxToStorageIdx(3, 10)
	idxB := ruleListIdxToStorageIdx(3, 20)
	var haveA, haveB rules.Rule
	for i := 0; i < k; i++ {
		idx := idxA
		have := haveA
		if verifBool(vn("pick", i, "")) {
			idx, have = idxB, haveB
		}
		before := l.calls
		r, e := s.RetrieveRule(idx)
		if have != nil {
			verifReach("c19.cached")
			verifAssert(e == nil && r == have, "c19: a rule materialised earlier is still served")
			verifAssert(l.calls == before, "c19: a cached rule does not touch the list")
		} else if e != nil {
			verifReach("c19.failed")
			verifAssert(r == nil, "c19: a failed retrieval yields no rule")
		} else {
			verifAssert(r != nil && r.GetFilterListID() == 3, "c19: a successful retrieval yields the rule")
		}
		if e == nil && r != nil {
			if idx == idxA {
				haveA = r
			} else {
				haveB = r
			}
		}
		// the typed helpers degrade to nil
		if e != nil {
			verifAssert(s.GetCacheSize() <= 2, "c19: failures are not cached")
		}
	}
	n := 0
	if haveA != nil {
		n++
	}
	if haveB != nil {
		n++
	}
	verifAssert(s.GetCacheSize() == n, "c19: the cache holds exactly the rules that were retrieved successfully")
	// closing the storage does not take away what is already in memory
	_ = s.Close()
	if haveA != nil {
		verifReach("c19.afterclose")
		r, e := s.RetrieveRule(idxA)
		verifAssert(e == nil && r == haveA, "c19: a rule materialised before Close is still served after it")
	}
	// an unknown list id is an error, not a crash
	_, e := s.RetrieveRule(ruleListIdxToStorageIdx(4, 0))
	verifAssert(e != nil, "c19: an unknown list yields an error")
	verifAssert(s.RetrieveHostRule(ruleListIdxToStorageIdx(4, 0)) == nil, "c19: the typed helper returns nil on error")
	verifAssert(s.RetrieveNetworkRule(idxA) == nil, "c19: a host rule is not a network rule")
}
