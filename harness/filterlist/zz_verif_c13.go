package filterlist

import (
	"github.com/AdguardTeam/urlfilter/rules"
)

func verifSameRule(a, b rules.Rule) bool {
	if a == nil || b == nil {
		return a == nil && b == nil
	}
	_, an := a.(*rules.NetworkRule)
	_, bn := b.(*rules.NetworkRule)
	_, ah := a.(*rules.HostRule)
	_, bh := b.(*rules.HostRule)
	return an == bn && ah == bh && a.Text() == b.Text() && a.GetFilterListID() == b.GetFilterListID()
}

// verifC13Cache: from any cache content satisfying "cache[i] is the parse of the list at i",
// RetrieveRule returns what it returns from the empty cache, and the invariant is preserved.
func verifC13Cache() {
	text := "||a.org^\n127.0.0.1 h.org\n! comment\n\n@@||b.org^$important\n"
	offsets := []int{0, 9, 26, 36, 37, 3}
	lst := &StringRuleList{ID: 7, RulesText: text}
	warm, _ := NewRuleStorage([]RuleList{lst})
	cold, _ := NewRuleStorage([]RuleList{&StringRuleList{ID: 7, RulesText: text}})
	// arbitrary valid pre-state: any subset of the indexes already materialised
	for i, off := range offsets {
		if verifBool(vn("cached", i, "")) {
			_, _ = warm.RetrieveRule(ruleListIdxToStorageIdx(7, int32(off)))
		}
	}
	k := verifChoice("which", len(offsets))
	idx := ruleListIdxToStorageIdx(7, int32(offsets[k]))
	r1, e1 := warm.RetrieveRule(idx)
	r2, e2 := cold.RetrieveRule(idx)
	verifReach("c13.cache")
	verifAssert((e1 == nil) == (e2 == nil) && verifSameRule(r1, r2), "c13: a warm cache answers like a cold one")
	r3, e3 := warm.RetrieveRule(idx)
	verifAssert((e3 == nil) == (e1 == nil) && verifSameRule(r1, r3), "c13: repeated retrieval gives the same rule")
	if r1 != nil {
		verifAssert(r3 == r1, "c13: a materialised rule is served from the cache")
	}
}
