package rules

import "strings"

// C13 — results are a pure function of the lists and the request (rules package parts).

// verifC13NoSharing: evaluating verdicts never writes to the caller's slices,
// not even to the cells between length and capacity, and is repeatable.
func verifC13NoSharing(k, s int) {
	spareA, spareB := &NetworkRule{RuleText: "spareA"}, &NetworkRule{RuleText: "spareB"}
	xs := make([]*NetworkRule, k, k+2)
	for i := range xs {
		xs[i] = verifC06Rule(vn("r", i, ""))
	}
	full := xs[:k+2]
	full[k], full[k+1] = spareA, spareB
	ys := make([]*NetworkRule, s, s+1)
	for i := range ys {
		ys[i] = verifC06Rule(vn("s", i, ""))
	}
	ys[:s+1][s] = spareA
	before := make([]*NetworkRule, k+2)
	copy(before, full)
	beforeY := make([]*NetworkRule, s+1)
	copy(beforeY, ys[:s+1])

	d1 := GetDNSBasicRule(xs)
	m1 := NewMatchingResult(xs, ys)
	b1 := m1.GetBasicResult()
	o1 := m1.GetCosmeticOption()
	// a second evaluation gives the same answers and alters neither inputs nor the earlier result
	d2 := GetDNSBasicRule(xs)
	m2 := NewMatchingResult(xs, ys)
	verifReach("c13.nosharing")
	verifAssert(d1 == d2, "c13: GetDNSBasicRule is repeatable")
	verifAssert(m2.GetBasicResult() == b1 && m2.GetCosmeticOption() == o1, "c13: NewMatchingResult is repeatable")
	verifAssert(m1.GetBasicResult() == b1 && m1.BasicRule == m2.BasicRule && m1.DocumentRule == m2.DocumentRule, "c13: an earlier result is unchanged by later evaluations")
	for i := range before {
		verifAssert(full[i] == before[i], "c13: the caller's rule slice is untouched up to its capacity")
	}
	for i := range beforeY {
		verifAssert(ys[:s+1][i] == beforeY[i], "c13: the caller's source rule slice is untouched up to its capacity")
	}
}

// verifC13LazyCompile: the lazily compiled pattern gives the same answers warm and cold.
func verifC13LazyCompile(from, count, L int) {
	for i := from; i < from+count; i++ {
		cold := verifNativeRule(i)
		warm := verifNativeRule(i)
		// the warm-up request and the request under test are of arbitrary kinds (URL or hostname request)
		u0 := verifString(vn("w", i, ""), 3, verifPrintable)
		h0 := verifString(vn("wh", i, ""), 2, verifHostChars)
		_ = warm.matchPattern(&Request{URL: u0, URLLowerCase: strings.ToLower(u0), Hostname: h0, IsHostnameRequest: verifBool(vn("w.hr", i, ""))})
		u := verifString(vn("u", i, ""), L, verifPrintable)
		h := verifString(vn("h", i, ""), 2, verifHostChars)
		req := &Request{URL: u, URLLowerCase: strings.ToLower(u), Hostname: h, IsHostnameRequest: verifBool(vn("q.hr", i, ""))}
		a := cold.matchPattern(req)
		b := warm.matchPattern(req)
		c := warm.matchPattern(req)
		verifReach("c13.lazy")
		verifAssert(a == b && b == c, "c13: a rule answers the same with a cold and a warm compiled pattern")
		verifAssert((cold.regex != nil) == (warm.regex != nil) && cold.invalid == warm.invalid, "c13: the compiled state depends on the pattern only")
	}
}
