package rules

import (
	"encoding/json"
	"net/netip"
	"os"
	"strings"
)

// C10 — parsed $dnsrewrite values always have the published shape.

// verifRewriteShape is the contract of the DNSRewrite / RRValue documentation.
func verifRewriteShape(rw *DNSRewrite) bool {
	if rw == nil {
		return false
	}
	if rw.NewCNAME != "" {
		return rw.RCode == 0 && rw.RRType == 0 && rw.Value == nil
	}
	if rw.RRType != 0 && rw.RCode != 0 {
		return false
	}
	switch rw.RRType {
	case 1: // A
		ip, ok := rw.Value.(netip.Addr)
		return ok && ip.Is4()
	case 28: // AAAA
		ip, ok := rw.Value.(netip.Addr)
		return ok && ip.Is6()
	case 15: // MX
		v, ok := rw.Value.(*DNSMX)
		return ok && v != nil
	case 33: // SRV
		v, ok := rw.Value.(*DNSSRV)
		return ok && v != nil
	case 64, 65: // SVCB, HTTPS
		v, ok := rw.Value.(*DNSSVCB)
		return ok && v != nil
	case 12: // PTR
		// a fully-qualified name: non-empty labels, each followed by one dot
		s, ok := rw.Value.(string)
		if !ok || len(s) < 2 || s[len(s)-1] != '.' || s[0] == '.' {
			return false
		}
		noEmptyLabel := true
		for i := 0; i+1 < len(s); i++ {
			if s[i] == '.' && s[i+1] == '.' {
				noEmptyLabel = false
			}
		}
		return noEmptyLabel
	case 16: // TXT
		_, ok := rw.Value.(string)
		return ok
	}
	return rw.Value == nil
}

func verifRewriteSame(a, b *DNSRewrite) bool {
	if a == nil || b == nil {
		return a == nil && b == nil
	}
	if a.NewCNAME != b.NewCNAME || a.RCode != b.RCode || a.RRType != b.RRType {
		return false
	}
	switch x := a.Value.(type) {
	case nil:
		return b.Value == nil
	case string:
		y, ok := b.Value.(string)
		return ok && x == y
	case netip.Addr:
		y, ok := b.Value.(netip.Addr)
		return ok && x == y
	case *DNSMX:
		y, ok := b.Value.(*DNSMX)
		return ok && *x == *y
	case *DNSSRV:
		y, ok := b.Value.(*DNSSRV)
		return ok && *x == *y
	case *DNSSVCB:
		y, ok := b.Value.(*DNSSVCB)
		return ok && x.Target == y.Target && x.Priority == y.Priority && len(x.Params) == len(y.Params)
	}
	return false
}

// verifDecimal16: s is a decimal number below 65536 written with digits only (leading zeros
// are digits too); returns its value.
func verifDecimal16(s string) (uint16, bool) {
	if len(s) == 0 {
		return 0, false
	}
	v := 0
	ok := true
	for i := 0; i < len(s); i++ {
		if s[i] < '0' || s[i] > '9' {
			ok = false
		}
		v = v*10 + int(s[i]-'0')
		if v > 65535 {
			// saturate: the number is out of range whatever follows
			ok = false
			v = 65536
		}
	}
	if !ok {
		return 0, false
	}
	return uint16(v), true
}

func verifField(s string, k int) string {
	// the k-th blank-separated field of s
	start, idx := 0, 0
	for i := 0; i <= len(s); i++ {
		if i == len(s) || s[i] == ' ' {
			if idx == k {
				return s[start:i]
			}
			idx++
			start = i + 1
		}
	}
	return ""
}

// verifNumbersWellFormed: the numeric fields of MX / SRV / SVCB values are plain decimal
// 16-bit numbers and are stored with their value ("malformed values are rejected").
func verifNumbersWellFormed(rw *DNSRewrite, val string) bool {
	switch v := rw.Value.(type) {
	case *DNSMX:
		n, ok := verifDecimal16(verifField(val, 0))
		return ok && n == v.Preference
	case *DNSSRV:
		p, ok1 := verifDecimal16(verifField(val, 0))
		w, ok2 := verifDecimal16(verifField(val, 1))
		q, ok3 := verifDecimal16(verifField(val, 2))
		return ok1 && ok2 && ok3 && p == v.Priority && w == v.Weight && q == v.Port
	case *DNSSVCB:
		p, ok := verifDecimal16(verifField(val, 0))
		return ok && p == v.Priority
	}
	return true
}

func verifC10Check(s string) {
	rw, err := loadDNSRewrite(s)
	if err != nil {
		verifReach("c10.rejected")
		verifAssert(rw == nil, "c10: a rejected value yields no rewrite")
		return
	}
	verifReach("c10.accepted")
	verifAssert(verifRewriteShape(rw), "c10: an accepted value has the published shape")
	if k := strings.LastIndex(s, ";"); k >= 0 {
		verifAssert(verifNumbersWellFormed(rw, s[k+1:]), "c10: numeric fields of an accepted value are plain decimal 16-bit numbers, stored with their value")
	}
	rw2, err2 := loadDNSRewrite(s)
	verifAssert(err2 == nil && verifRewriteSame(rw, rw2), "c10: parsing is deterministic")
}

// verifC10Short: the short form, n symbolic bytes.
func verifC10Short(n int, alpha int) {
	alphabets := []string{"NOERSVFAILXDMU", "a1.:-;", "aA1.-"}
	verifC10Check(verifString("v", n, alphabets[alpha]))
}

// verifC10Normal: rcode ; rr ; value with concrete keywords and a symbolic value.
func verifC10Normal(rcodeIdx, rrIdx, n int, alpha int) {
	alphabets := []string{"a1.:- =", "16.: a", "a1- .", "0x1 a", "19 0."}
	rc := verifKeyword("rcode", rcodeIdx)
	rr := verifKeyword("rr", rrIdx)
	verifC10Check(rc + ";" + rr + ";" + verifString("v", n, alphabets[alpha]))
}

var verifAddrLiterals = []string{"1.2.3.4", "0.0.0.0", "::1", "::", "::ffff:1.2.3.4", "0:0:0:0:0:ffff:7f00:1", "2001:db8::1", "fe80::1%eth0", "1.2.3", "[::1]"}

// verifC10Literal: NOERROR ; rr ; <address literal> and the short form, with the literal
// parsed by the real netip (natively, the value is concrete).
func verifC10Literal(rrIdx, lit int) {
	rr := verifKeyword("rr", rrIdx)
	verifReach("c10.literal")
	verifC10Check("NOERROR;" + rr + ";" + verifAddrLiterals[lit])
	verifC10Check(verifAddrLiterals[lit])
}

var verifKeywords map[string][]string

// verifKeyword returns keyword i of the driver's list (rcode or rr names; natively from VERIF_KEYWORDS).
func verifKeyword(kind string, i int) string {
	return verifKeywordList(kind)[i]
}

// verifKeywordList is intercepted by the executor (driver-provided list); natively it reads VERIF_KEYWORDS.
func verifKeywordList(kind string) []string {
	if verifKeywords == nil {
		b, err := os.ReadFile(os.Getenv("VERIF_KEYWORDS"))
		if err != nil {
			panic(err)
		}
		if err = json.Unmarshal(b, &verifKeywords); err != nil {
			panic(err)
		}
	}
	return verifKeywords[kind]
}

func verifC10Vacuity() {
	_, _ = loadDNSRewrite("NOERROR;A;" + verifString("v", 3, "1."))
	verifAssert(false, "vacuity")
}
