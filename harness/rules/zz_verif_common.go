package rules

import (
	"strings"
)

// ---------------------------------------------------------------------------
// Representation invariant of parsed network rules (DESIGN.md §2.10) and the
// textualisation used to replay field-level counterexamples through the real
// parser.

// verifParseableEnabled are the option bits a rule text can enable.
const verifParseableEnabled = OptionThirdParty | OptionMatchCase | OptionImportant | OptionBadfilter |
	OptionElemhide | OptionGenerichide | OptionGenericblock | OptionJsinject | OptionUrlblock |
	OptionContent | OptionExtension | OptionStealth | OptionPopup | OptionEmpty | OptionMp4

const verifParseableDisabled = OptionThirdParty | OptionMatchCase

// verifDocumentLevel are the options that force permittedRequestTypes = document.
const verifDocumentLevel = OptionJsinject | OptionElemhide | OptionContent | OptionUrlblock |
	OptionGenericblock | OptionGenerichide | OptionExtension | OptionPopup

// verifInvOptions is the part of InvRule that concerns the option words.
func verifInvOptions(r *NetworkRule) bool {
	if r.enabledOptions&^verifParseableEnabled != 0 {
		return false
	}
	if r.disabledOptions&^verifParseableDisabled != 0 {
		return false
	}
	if r.Whitelist {
		if r.enabledOptions&OptionBlacklistOnly != 0 {
			return false
		}
	} else {
		// $~extension toggles the bit without the white-list check
		if r.enabledOptions&(OptionWhitelistOnly&^OptionExtension) != 0 {
			return false
		}
	}
	if r.enabledOptions&verifDocumentLevel != 0 {
		if r.permittedRequestTypes != TypeDocument {
			return false
		}
	}
	return true
}

var verifOptionNames = []struct {
	bit  NetworkRuleOption
	name string
}{
	{OptionThirdParty, "third-party"},
	{OptionMatchCase, "match-case"},
	{OptionImportant, "important"},
	{OptionBadfilter, "badfilter"},
	{OptionElemhide, "elemhide"},
	{OptionGenerichide, "generichide"},
	{OptionGenericblock, "genericblock"},
	{OptionJsinject, "jsinject"},
	{OptionUrlblock, "urlblock"},
	{OptionContent, "content"},
	{OptionExtension, "extension"},
	{OptionStealth, "stealth"},
	{OptionPopup, "popup"},
	{OptionEmpty, "empty"},
	{OptionMp4, "mp4"},
}

var verifTypeNames = []struct {
	bit  RequestType
	name string
}{
	{TypeSubdocument, "subdocument"},
	{TypeScript, "script"},
	{TypeStylesheet, "stylesheet"},
	{TypeObject, "object"},
	{TypeImage, "image"},
	{TypeXmlhttprequest, "xmlhttprequest"},
	{TypeMedia, "media"},
	{TypeFont, "font"},
	{TypeWebsocket, "websocket"},
	{TypePing, "ping"},
	{TypeOther, "other"},
}

// verifRuleSpec is what the textualiser needs besides the rule's own fields.
type verifRuleSpec struct {
	pattern string // mask pattern; default "||example.org^"
}

// verifOptionsText renders the modifiers of r.  ok=false if r is not the image
// of any rule text (then the counterexample is spurious).
func verifOptionsText(r *NetworkRule) (opts []string, ok bool) {
	for _, o := range verifOptionNames {
		if r.enabledOptions&o.bit != 0 {
			if o.bit == OptionExtension && !r.Whitelist {
				opts = append(opts, "~extension")
			} else {
				opts = append(opts, o.name)
			}
		}
	}
	if r.disabledOptions&OptionThirdParty != 0 {
		opts = append(opts, "~third-party")
	}
	if r.disabledOptions&OptionMatchCase != 0 {
		opts = append(opts, "~match-case")
	}
	docLevel := r.enabledOptions&verifDocumentLevel != 0
	if !docLevel {
		if r.permittedRequestTypes&TypeDocument != 0 {
			return nil, false // $document as a content type is not parseable
		}
		for _, t := range verifTypeNames {
			if r.permittedRequestTypes&t.bit != 0 {
				opts = append(opts, t.name)
			}
		}
	}
	if r.restrictedRequestTypes&TypeDocument != 0 {
		return nil, false
	}
	for _, t := range verifTypeNames {
		if r.restrictedRequestTypes&t.bit != 0 {
			opts = append(opts, "~"+t.name)
		}
	}
	var doms []string
	for _, d := range r.permittedDomains {
		doms = append(doms, d)
	}
	for _, d := range r.restrictedDomains {
		doms = append(doms, "~"+d)
	}
	if len(doms) > 0 {
		opts = append(opts, "domain="+strings.Join(doms, "|"))
	}
	if len(r.denyAllowDomains) > 0 {
		opts = append(opts, "denyallow="+strings.Join(r.denyAllowDomains, "|"))
	}
	var tags []string
	for _, d := range r.permittedClientTags {
		tags = append(tags, d)
	}
	for _, d := range r.restrictedClientTags {
		tags = append(tags, "~"+d)
	}
	if len(tags) > 0 {
		opts = append(opts, "ctag="+strings.Join(tags, "|"))
	}
	var cl []string
	if r.permittedClients != nil {
		for _, h := range r.permittedClients.hosts {
			cl = append(cl, "'"+h+"'")
		}
		for _, n := range r.permittedClients.nets {
			cl = append(cl, n.String())
		}
	}
	if r.restrictedClients != nil {
		for _, h := range r.restrictedClients.hosts {
			cl = append(cl, "~'"+h+"'")
		}
		for _, n := range r.restrictedClients.nets {
			cl = append(cl, "~"+n.String())
		}
	}
	if len(cl) > 0 {
		opts = append(opts, "client="+strings.Join(cl, "|"))
	}
	var dt []string
	for _, t := range r.permittedDNSTypes {
		dt = append(dt, verifRRName(t))
	}
	for _, t := range r.restrictedDNSTypes {
		dt = append(dt, "~"+verifRRName(t))
	}
	if len(dt) > 0 {
		opts = append(opts, "dnstype="+strings.Join(dt, "|"))
	}
	return opts, true
}

func verifRRName(t RRType) string {
	switch t {
	case 1:
		return "A"
	case 28:
		return "AAAA"
	case 5:
		return "CNAME"
	case 15:
		return "MX"
	case 16:
		return "TXT"
	case 12:
		return "PTR"
	case 33:
		return "SRV"
	case 65:
		return "HTTPS"
	case 64:
		return "SVCB"
	case 2:
		return "NS"
	}
	return "TYPE?"
}

// verifRuleText renders r as rule text with the given pattern.
func verifRuleText(r *NetworkRule, pattern string, extraOpts ...string) (text string, ok bool) {
	opts, ok := verifOptionsText(r)
	if !ok {
		return "", false
	}
	opts = append(opts, extraOpts...)
	text = pattern
	if r.Whitelist {
		text = "@@" + text
	}
	if len(opts) > 0 {
		text += "$" + strings.Join(opts, ",")
	}
	return text, true
}

// verifRealize: in symbolic mode the identity.  In native replay the rule is
// rendered as text and parsed by the real parser; if the parsed rule does not
// have the same fields the counterexample is not realisable and is skipped.
func verifRealize(r *NetworkRule, pattern string, extraOpts ...string) *NetworkRule {
	if verifSymbolic() {
		return r
	}
	text, ok := verifRuleText(r, pattern, extraOpts...)
	if !ok {
		panic(verifSkip{"rule is not the image of a rule text"})
	}
	p, err := NewNetworkRule(text, r.FilterListID)
	if err != nil {
		panic(verifSkip{"rule text rejected by the parser: " + text + ": " + err.Error()})
	}
	if p.Whitelist != r.Whitelist || p.enabledOptions != r.enabledOptions || p.disabledOptions != r.disabledOptions ||
		p.permittedRequestTypes != r.permittedRequestTypes || p.restrictedRequestTypes != r.restrictedRequestTypes ||
		len(p.permittedDomains) != len(r.permittedDomains) || len(p.restrictedDomains) != len(r.restrictedDomains) ||
		len(p.denyAllowDomains) != len(r.denyAllowDomains) ||
		len(p.permittedClientTags) != len(r.permittedClientTags) || len(p.restrictedClientTags) != len(r.restrictedClientTags) ||
		len(p.permittedDNSTypes) != len(r.permittedDNSTypes) || len(p.restrictedDNSTypes) != len(r.restrictedDNSTypes) ||
		p.permittedClients.Len() != r.permittedClients.Len() || p.restrictedClients.Len() != r.restrictedClients.Len() {
		panic(verifSkip{"parsed rule differs from the field-level rule: " + text})
	}
	verifNote("realised as: " + text)
	verifRealised = append(verifRealised, text)
	return p
}

// verifRealised collects the rule texts used by a native replay (printed by the replay test).
var verifRealised []string

// verifSymRule builds a network rule whose parsed fields are symbolic: the
// exception flag, both option words, both type masks, and the *lengths* of
// every value list (0..maxList, contents are fixed placeholders, sorted).
// The pointer-or-nil choice of the two client sets is a two-way choice each.
func verifSymRule(p string, maxList int) *NetworkRule {
	r := &NetworkRule{}
	r.Whitelist = verifBool(p + ".whitelist")
	r.enabledOptions = NetworkRuleOption(verifU64(p + ".enabled"))
	r.disabledOptions = NetworkRuleOption(verifU64(p + ".disabled"))
	r.permittedRequestTypes = RequestType(verifU32(p + ".ptypes"))
	r.restrictedRequestTypes = RequestType(verifU32(p + ".rtypes"))
	r.permittedDomains = verifSymLen(verifNames("pd", ".com", maxList), p+".npd")
	r.restrictedDomains = verifSymLen(verifNames("rd", ".com", maxList), p+".nrd")
	r.denyAllowDomains = verifSymLen(verifNames("da", ".com", maxList), p+".nda")
	r.permittedClientTags = verifSymLen(verifNames("pt", "", maxList), p+".npt")
	r.restrictedClientTags = verifSymLen(verifNames("rt", "", maxList), p+".nrt")
	r.permittedDNSTypes = verifSymLen(verifRRs(maxList, 0), p+".npq")
	r.restrictedDNSTypes = verifSymLen(verifRRs(maxList, 3), p+".nrq")
	if verifBool(p + ".hasPermClients") {
		c := &clients{hosts: verifSymLen(verifNames("pc", "", maxList), p+".npc")}
		verifAssume(len(c.hosts) > 0)
		r.permittedClients = c
	}
	if verifBool(p + ".hasRestClients") {
		c := &clients{hosts: verifSymLen(verifNames("rc", "", maxList), p+".nrc")}
		verifAssume(len(c.hosts) > 0)
		r.restrictedClients = c
	}
	verifAssume(verifInvOptions(r))
	return r
}

func verifNames(prefix, suffix string, n int) []string {
	out := make([]string, n)
	for i := range out {
		out[i] = vn(prefix, i, suffix)
	}
	return out
}

var verifRRMenu = []RRType{1, 28, 5, 15, 16, 12, 33, 65, 64, 2}

func verifRRs(n, from int) []RRType {
	out := make([]RRType, n)
	for i := range out {
		out[i] = verifRRMenu[(from+i)%len(verifRRMenu)]
	}
	return out
}

// verifRequestTypesOK: the type masks a parser can produce (document only via document-level options).
func verifRequestTypesOK(r *NetworkRule) bool {
	const all = TypeDocument | TypeSubdocument | TypeScript | TypeStylesheet | TypeObject | TypeImage |
		TypeXmlhttprequest | TypeMedia | TypeFont | TypeWebsocket | TypePing | TypeOther
	if r.permittedRequestTypes&^all != 0 || r.restrictedRequestTypes&^all != 0 {
		return false
	}
	if r.restrictedRequestTypes&TypeDocument != 0 {
		return false
	}
	if r.enabledOptions&verifDocumentLevel == 0 && r.permittedRequestTypes&TypeDocument != 0 {
		return false
	}
	return true
}
