package rules

import (
	"strings"

	"github.com/AdguardTeam/urlfilter/filterutil"
)

// C12 — parsing never crashes; a line yields nothing, a rule whose text is the
// trimmed line with the given list id, or an error.  Crash freedom is the
// executor's built-in check of Go's run-time panics on every explored path.

var verifC12Alphabets = []string{
	"a|^$,=@~. ",     // network rule syntax
	"1.: \t#a",        // hosts-file syntax
	"a#@?$%,~ .",      // cosmetic rule syntax
	"/a\\$,|*=",       // regular expressions, escapes, option delimiter
	"!#[a \t",         // comments
	"a$,=~|domain",    // option names and values
	"a.1\t\n\v\f\r ", // every ASCII white-space character TrimSpace removes
}

func verifC12NewRule(n, alpha int) {
	line := verifString("line", n, verifC12Alphabets[alpha])
	r, err := NewRule(line, 5)
	trimmed := strings.TrimSpace(line)
	if r == nil && err == nil {
		verifReach("c12.nothing")
		verifAssert(trimmed == "" || trimmed[0] == '!' || trimmed[0] == '#', "c12: only blank lines and comments yield nothing")
		return
	}
	if err != nil {
		verifReach("c12.error")
		verifAssert(r == nil || verifIsNilRule(r), "c12: an error comes without a rule")
		return
	}
	verifReach("c12.rule")
	verifAssert(r.Text() == trimmed, "c12: the rule text is the trimmed line")
	verifAssert(r.GetFilterListID() == 5, "c12: the rule carries the list id")
}

// verifIsNilRule: a typed nil pointer inside the interface.
func verifIsNilRule(r Rule) bool {
	switch x := r.(type) {
	case *NetworkRule:
		return x == nil
	case *HostRule:
		return x == nil
	case *CosmeticRule:
		return x == nil
	}
	return false
}

// verifC12Kernels: the individual parsing helpers on arbitrary short strings (one helper per job).
func verifC12Kernels(which, n int) {
	switch which {
	case 0:
		s1 := verifString("s1", n, "@/$\\a=,")
		_, _, _, _ = parseRuleText(s1)
	case 1:
		s2 := verifString("s2", n, "ab*^|")
		_ = findShortcut(s2)
	case 2:
		s3 := verifString("s3", n, "a,\\")
		_ = splitWithEscapeCharacter(s3, ',', '\\', verifBool("keep"))
	case 3:
		s4 := verifString("s4", n, "a#@?$% ")
		_, _ = findCosmeticRuleMarker(s4)
		_ = isComment(s4)
	case 4:
		s5 := verifString("s5", n, "a:/?.#")
		h := filterutil.ExtractHostname(s5)
		verifAssert(strings.Contains(s5, h), "c12: the extracted hostname is a substring of the URL")
	case 5:
		s6 := verifString("s6", n, "zq.")
		d := effectiveTLDPlusOne(s6)
		verifAssert(strings.HasSuffix(s6, d), "c12: the registrable domain is a suffix of the hostname")
	case 6:
		s7 := verifString("s7", n, "ax-.1")
		_ = filterutil.IsDomainName(s7)
		_ = filterutil.IsProbablyIP(s7)
	case 8:
		// the translation every Match starts with (also C03a, with the output checked)
		_ = patternToRegexp(verifString("s9", n, "a.*^|/$\\"))
	case 7:
		s8 := verifString("s8", n, "/a.-|:h")
		f := &NetworkRule{pattern: s8}
		_ = f.shouldMatchHostname(&Request{IsHostnameRequest: verifBool("hr")})
	}
	verifReach("c12.kernels")
}

// verifC12Options: every option name with a short symbolic value.
func verifC12Options(nameIdx, n int) {
	name := verifKeyword("option", nameIdx)
	val := verifString("val", n, "a~|.1*'")
	f := &NetworkRule{Whitelist: verifBool("wl")}
	_ = f.loadOption(name, val)
	verifReach("c12.option")
}

func verifC12Vacuity() {
	_, _ = NewRule(verifString("line", 3, "a|^$"), 1)
	verifAssert(false, "vacuity")
}
