package rules

// C16 — exception modifiers only ever switch cosmetic options off.
//
// The basic rule's option word is fully symbolic (64 bits) under the
// representation invariant of parsed rules; the exception flag is symbolic.
func verifC16() {
	var m MatchingResult
	if verifBool("hasRule") {
		r := &NetworkRule{
			Whitelist:      verifBool("r.whitelist"),
			enabledOptions: NetworkRuleOption(verifU64("r.enabled")),
		}
		r.permittedRequestTypes = RequestType(verifU32("r.ptypes"))
		verifAssume(verifInvOptions(r))
		if verifKnown("D2") {
			verifAssume(!(r.Whitelist && r.enabledOptions&OptionElemhide != 0 && r.enabledOptions&OptionGenerichide != 0))
		}
		m.BasicRule = verifRealize(r, "||example.org^")
	}
	got := m.GetCosmeticOption()

	want := CosmeticOptionAll
	if m.BasicRule != nil && m.BasicRule.Whitelist {
		verifReach("c16.exception")
		if m.BasicRule.enabledOptions&OptionElemhide != 0 {
			want &^= CosmeticOptionCSS | CosmeticOptionGenericCSS
		}
		if m.BasicRule.enabledOptions&OptionGenerichide != 0 {
			want &^= CosmeticOptionGenericCSS
		}
		if m.BasicRule.enabledOptions&OptionJsinject != 0 {
			want &^= CosmeticOptionJS
		}
	} else {
		verifReach("c16.noexception")
	}
	verifAssert(got&^CosmeticOptionAll == 0, "c16: no option outside All is ever set")
	verifAssert(got == want, "c16: option == All minus the union of what each modifier disables")
}

// verifC16Monotone: adding one more modifier bit to an exception never re-enables an option.
func verifC16Monotone() {
	a := &NetworkRule{Whitelist: true, enabledOptions: NetworkRuleOption(verifU64("a.enabled"))}
	a.permittedRequestTypes = RequestType(verifU32("a.ptypes"))
	verifAssume(verifInvOptions(a))
	bit := NetworkRuleOption(1) << (verifU8("bit") & 63)
	b := &NetworkRule{Whitelist: true, enabledOptions: a.enabledOptions | bit}
	b.permittedRequestTypes = RequestType(verifU32("b.ptypes"))
	verifAssume(verifInvOptions(b))
	if verifKnown("D2") {
		verifAssume(!(b.enabledOptions&OptionElemhide != 0 && b.enabledOptions&OptionGenerichide != 0))
	}
	ra := verifRealize(a, "||example.org^")
	rb := verifRealize(b, "||example.org^")
	ma := MatchingResult{BasicRule: ra}
	mb := MatchingResult{BasicRule: rb}
	oa, ob := ma.GetCosmeticOption(), mb.GetCosmeticOption()
	verifReach("c16.monotone")
	verifAssert(ob&^oa == 0, "c16: adding a modifier never re-enables an option")
}

// verifC16Vacuity must be reported violated (reachability witness of the harness).
func verifC16Vacuity() {
	r := &NetworkRule{Whitelist: true, enabledOptions: NetworkRuleOption(verifU64("r.enabled"))}
	r.permittedRequestTypes = RequestType(verifU32("r.ptypes"))
	verifAssume(verifInvOptions(r))
	m := MatchingResult{BasicRule: r}
	_ = m.GetCosmeticOption()
	verifAssert(false, "vacuity")
}
