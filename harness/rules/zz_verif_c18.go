package rules

import "net/netip"

// C18 — hosts-file lines yield exactly the listed names with the given address.

var verifIPMenu = []string{"0.0.0.0", "127.0.0.1", "::1", "::ffff:1.2.3.4", "2001:db8::1"}

// verifC18: line = ip ws+ name (ws+ name)* [ws* '#' any].
// comment: 0 none, 1 '#' directly after the last name, 2 blank(s) then '#'.
func verifC18(ipIdx, nNames, maxNameLen, comment int) {
	ip := verifIPMenu[ipIdx]
	line := ip
	names := make([]string, nNames)
	for i := 0; i < nNames; i++ {
		wl := 1
		if i == 0 {
			wl = 1 + verifChoice("ws0.len", 2)
		}
		line += verifString(vn("ws", i, ""), wl, " \t")
		nl := 1 + verifChoice(vn("name", i, ".len"), maxNameLen)
		names[i] = verifString(vn("name", i, ""), nl, "ab.")
		line += names[i]
	}
	switch comment {
	case 1:
		cl := verifChoice("comment.len", 3)
		c := verifString("comment", cl, "#a ")
		if cl > 0 {
			// "name##..." is element hiding syntax, not a comment
			verifAssume(c[0] != '#')
		}
		if verifKnown("D8") {
			verifAssume(false)
		}
		line += "#" + c
	case 2:
		wl := 1 + verifChoice("cws.len", 2)
		cl := verifChoice("comment.len", 3)
		line += verifString("cws", wl, " \t") + "#" + verifString("comment", cl, "#a ")
	case 3:
		// trailing blanks only
		line += verifString("tws", 1+verifChoice("tws.len", 2), " \t")
	}
	verifNote(line)
	r, err := NewRule(line, 7)
	verifAssert(err == nil && r != nil, "c18: a well-formed hosts line is accepted")
	if err != nil || r == nil {
		return
	}
	h, ok := r.(*HostRule)
	verifAssert(ok, "c18: a hosts line yields a host rule")
	if !ok {
		return
	}
	verifReach("c18.parsed")
	want, _ := netip.ParseAddr(ip)
	verifAssert(h.IP == want, "c18: the rule carries the address of the line")
	verifAssert(h.FilterListID == 7, "c18: the rule carries the list id")
	verifAssert(len(h.Hostnames) == nNames, "c18: exactly the listed names (count)")
	if len(h.Hostnames) == nNames {
		for i := range names {
			verifAssert(h.Hostnames[i] == names[i], "c18: exactly the listed names (content)")
		}
	}
	// Match(q) <=> q is one of the names
	ql := 1 + verifChoice("q.len", maxNameLen)
	q := verifString("q", ql, "ab.")
	in := false
	for _, n := range names {
		if n == q {
			in = true
		}
	}
	if in {
		verifReach("c18.match")
	}
	verifAssert(h.Match(q) == in, "c18: a host rule matches a name iff it is one of its names")
}

var verifDomainMenu = []string{"example.org", "a.bc", "sub.example.com", "xn--e1afmkfd.xn--p1ai", "a-b.co"}

// verifC18Bare: name [ws* '#' any] yields a rule for that name with 0.0.0.0.
func verifC18Bare(nameIdx, comment int) {
	name := verifDomainMenu[nameIdx]
	line := name
	switch comment {
	case 1:
		cl := verifChoice("comment.len", 3)
		c := verifString("comment", cl, "#a ")
		if cl > 0 {
			verifAssume(c[0] != '#')
		}
		if verifKnown("D8") {
			verifAssume(false)
		}
		line += "#" + c
	case 2:
		wl := 1 + verifChoice("cws.len", 2)
		cl := verifChoice("comment.len", 3)
		line += verifString("cws", wl, " \t") + "#" + verifString("comment", cl, "#a ")
	}
	r, err := NewRule(line, 3)
	verifAssert(err == nil && r != nil, "c18: a bare domain line is accepted")
	if err != nil || r == nil {
		return
	}
	h, ok := r.(*HostRule)
	verifAssert(ok, "c18: a bare domain yields a host rule")
	if !ok {
		return
	}
	verifReach("c18.bare")
	verifAssert(len(h.Hostnames) == 1 && h.Hostnames[0] == name, "c18: a bare domain yields a rule for exactly that name")
	verifAssert(h.IP == netip.IPv4Unspecified(), "c18: a bare domain gets the unspecified IPv4 address")
}

func verifC18Vacuity() {
	line := "0.0.0.0 " + verifString("n", 2, "ab.")
	_, _ = NewRule(line, 1)
	verifAssert(false, "vacuity")
}
