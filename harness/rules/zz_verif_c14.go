package rules

// verifC14Rule: matching a shared rule object (lazy compilation of its pattern).
func verifC14Rule(warm int) {
	r, _ := NewNetworkRule("||example.org^$domain=x.com", 1)
	if warm == 1 {
		_ = r.matchPattern(&Request{URL: "http://example.org/"})
	}
	verifShared()
	req := &Request{URL: "http://example.org/a", URLLowerCase: "http://example.org/a", SourceHostname: "x.com"}
	_ = r.Match(req)
	verifReach("c14.rule")
}
