package rules

import (
	"net/netip"
	"strconv"
	"strings"
)

// Exported shims for harnesses that live in other packages of the module.

// VerifRewriteRule builds a $dnsrewrite rule with symbolic exception flag,
// $important flag and rewrite payload.  kinds: 0 empty value, 1 new CNAME,
// 2 response code only, 3 A record, 4 TXT record, 5 MX record, 6 AAAA, 7 SRV, 8 HTTPS (SVCB structure), 9 PTR, 10 NS/SOA (type without a value).
func VerifRewriteRule(p string, nkinds int) *NetworkRule {
	r := &NetworkRule{RuleText: p, pattern: "||x^"}
	r.Whitelist = verifBool(p + ".whitelist")
	if verifBool(p + ".important") {
		r.enabledOptions = OptionImportant
	}
	rw := &DNSRewrite{}
	text := ""
	switch verifChoice(p+".kind", nkinds) {
	case 0:
	case 1:
		rw.NewCNAME = verifString(p+".cname", 1, "ab")
		text = rw.NewCNAME
	case 2:
		rc := verifU8(p + ".rcode")
		verifAssume(rc == 2 || rc == 3 || rc == 5)
		rw.RCode = int(rc)
		switch rc {
		case 2:
			text = "SERVFAIL"
		case 3:
			text = "NXDOMAIN"
		default:
			text = "REFUSED"
		}
	case 3:
		b := verifU8(p + ".ip")
		verifAssume(b < 4)
		rw.RRType = 1
		rw.Value = netip.AddrFrom4([4]byte{10, 0, 0, b})
		if !verifSymbolic() {
			text = "NOERROR;A;10.0.0." + strconv.Itoa(int(b))
		}
	case 4:
		s := verifString(p+".txt", 1, "ab")
		rw.RRType = 16
		rw.Value = s
		text = "NOERROR;TXT;" + s
	case 5:
		ex := verifString(p+".mx", 1, "ab")
		pref := verifU8(p + ".pref")
		verifAssume(pref < 3)
		rw.RRType = 15
		rw.Value = &DNSMX{Exchange: ex, Preference: uint16(pref)}
		if !verifSymbolic() {
			text = "NOERROR;MX;" + strconv.Itoa(int(pref)) + " " + ex
		}
	case 6:
		b := verifU8(p + ".ip6")
		verifAssume(b < 3)
		var a16 [16]byte
		a16[0], a16[1], a16[15] = 0x20, 0x01, b
		rw.RRType = 28
		rw.Value = netip.AddrFrom16(a16)
		if !verifSymbolic() {
			text = "NOERROR;AAAA;2001::" + strconv.Itoa(int(b))
		}
	case 7:
		tg := verifString(p+".srv", 1, "ab")
		port := verifU8(p + ".port")
		verifAssume(port < 3)
		rw.RRType = 33
		rw.Value = &DNSSRV{Target: tg, Priority: 1, Weight: 2, Port: uint16(port)}
		if !verifSymbolic() {
			text = "NOERROR;SRV;1 2 " + strconv.Itoa(int(port)) + " " + tg
		}
	case 8:
		tg := verifString(p+".svcb", 1, "ab")
		al := verifString(p+".alpn", 1, "hq")
		rw.RRType = 65
		rw.Value = &DNSSVCB{Target: tg, Priority: 1, Params: map[string]string{"alpn": al}}
		if !verifSymbolic() {
			text = "NOERROR;HTTPS;1 " + tg + " alpn=" + al
		}
	case 9:
		nm := verifString(p+".ptr", 1, "ab")
		rw.RRType = 12
		rw.Value = nm + "."
		if !verifSymbolic() {
			text = "NOERROR;PTR;" + nm
		}
	case 10:
		// a record type without a value parser: the type is kept, the value is dropped
		if verifBool(p + ".soa") {
			rw.RRType = 6
			text = "NOERROR;SOA;a"
		} else {
			rw.RRType = 2
			text = "NOERROR;NS;a"
		}
	}
	r.DNSRewrite = rw
	if verifSymbolic() {
		return r
	}
	rt := "||x^$dnsrewrite=" + text
	if r.Whitelist {
		rt = "@@" + rt
	}
	if r.enabledOptions&OptionImportant != 0 {
		rt += ",important"
	}
	parsed, err := NewNetworkRule(rt, 0)
	if err != nil {
		panic(verifSkip{"rewrite rule rejected by the parser: " + rt + ": " + err.Error()})
	}
	verifRealised = append(verifRealised, rt)
	return parsed
}

// VerifRealised returns the rule texts parsed during a native replay.
func VerifRealised() []string { return verifRealised }

// VerifRRValueEq is the reference equality of rewrite values: by content.
func VerifRRValueEq(a, b RRValue) bool {
	switch x := a.(type) {
	case nil:
		return b == nil
	case string:
		y, ok := b.(string)
		return ok && x == y
	case netip.Addr:
		y, ok := b.(netip.Addr)
		return ok && x == y
	case *DNSMX:
		y, ok := b.(*DNSMX)
		return ok && x.Exchange == y.Exchange && x.Preference == y.Preference
	case *DNSSRV:
		y, ok := b.(*DNSSRV)
		return ok && x.Target == y.Target && x.Priority == y.Priority && x.Weight == y.Weight && x.Port == y.Port
	case *DNSSVCB:
		y, ok := b.(*DNSSVCB)
		if !ok || x.Target != y.Target || x.Priority != y.Priority || len(x.Params) != len(y.Params) {
			return false
		}
		same := true
		for k, v := range x.Params {
			if w, has := y.Params[k]; !has || w != v {
				same = false
			}
		}
		return same
	}
	return false
}

// VerifCompiledPattern returns the regular expression text Match compiles for r
// ("" when the pattern matches everything).
func VerifCompiledPattern(r *NetworkRule) string {
	p := patternToRegexp(r.pattern)
	if p == RegexAnyCharacter {
		return ""
	}
	if !r.IsOptionEnabled(OptionMatchCase) {
		p = "(?i)" + p
	}
	return p
}

// VerifModifierValues renders the parsed modifier values of r (for the native cross-check of C04).
func VerifModifierValues(r *NetworkRule) map[string][]string {
	out := map[string][]string{}
	if r.enabledOptions&OptionThirdParty != 0 {
		out["tp"] = append(out["tp"], "third-party")
	}
	if r.disabledOptions&OptionThirdParty != 0 {
		out["tp"] = append(out["tp"], "~third-party")
	}
	for _, t := range verifTypeNames {
		if r.permittedRequestTypes&t.bit != 0 {
			out["type"] = append(out["type"], t.name)
		}
		if r.restrictedRequestTypes&t.bit != 0 {
			out["type"] = append(out["type"], "~"+t.name)
		}
	}
	for _, d := range r.permittedDomains {
		out["domain"] = append(out["domain"], d)
	}
	for _, d := range r.restrictedDomains {
		out["domain"] = append(out["domain"], "~"+d)
	}
	for _, d := range r.denyAllowDomains {
		out["denyallow"] = append(out["denyallow"], d)
	}
	for _, t := range r.permittedDNSTypes {
		out["dnstype"] = append(out["dnstype"], verifRRName(t))
	}
	for _, t := range r.restrictedDNSTypes {
		out["dnstype"] = append(out["dnstype"], "~"+verifRRName(t))
	}
	for _, t := range r.permittedClientTags {
		out["ctag"] = append(out["ctag"], t)
	}
	for _, t := range r.restrictedClientTags {
		out["ctag"] = append(out["ctag"], "~"+t)
	}
	if c := r.permittedClients; c != nil {
		for _, h := range c.hosts {
			out["client"] = append(out["client"], h)
		}
		for _, n := range c.nets {
			out["client"] = append(out["client"], verifNetText(n))
		}
	}
	if c := r.restrictedClients; c != nil {
		for _, h := range c.hosts {
			out["client"] = append(out["client"], "~"+h)
		}
		for _, n := range c.nets {
			out["client"] = append(out["client"], "~"+verifNetText(n))
		}
	}
	return out
}

// verifNetText renders a prefix the way the grammar writes it: a bare address for a full-length prefix.
func verifNetText(n netip.Prefix) string {
	if n.Bits() == n.Addr().BitLen() {
		return n.Addr().String()
	}
	return n.String()
}

// ---------------------------------------------------------------------------
// C01 / C19 / C13: rules for the lookup-table harnesses.

// verifDomainOK: d (over {z,q,.,*}) is a value the $domain parser accepts:
// labels of letters, no empty label, a final label of >= 2 letters or the "*" wildcard.
func verifDomainOK(d string) bool {
	n := len(d)
	if n < 2 || d[0] == '.' || d[0] == '*' {
		return false
	}
	ok := true
	for i := 0; i < n; i++ {
		if d[i] == '*' && !(i == n-1 && d[i-1] == '.') {
			ok = false
		}
		if i+1 < n && d[i] == '.' && d[i+1] == '.' {
			ok = false
		}
	}
	if d[n-1] == '.' {
		ok = false
	}
	// the last label has at least two letters unless it is the wildcard
	// (a single label such as "org" is a valid $domain value)
	if d[n-1] != '*' && d[n-2] == '.' {
		ok = false
	}
	return ok
}

func verifHasDot(d string) bool {
	has := false
	for i := 0; i < len(d); i++ {
		if d[i] == '.' {
			has = true
		}
	}
	return has
}

// VerifTableRule builds a rule for the lookup-table harnesses: the pattern is
// the literal shortcut (shortcutLen symbolic bytes over {a,b,:,/}, or "*" when
// shortcutLen is 0) and ndom $domain values of domLen symbolic bytes over {z,q,.,*}.
// Natively the rule is parsed from its text.
// VerifTableAlphabet is the alphabet of shortcuts and URLs in the table harnesses (set by the harness).
var VerifTableAlphabet = "ab:/"

func VerifTableRule(p string, shortcutLen, ndom, domLen int) *NetworkRule {
	r := &NetworkRule{RuleText: p, FilterListID: 1}
	if shortcutLen == 0 {
		r.pattern = "*"
	} else {
		sc := verifString(p+".shortcut", shortcutLen, VerifTableAlphabet)
		r.pattern = sc
		r.Shortcut = sc
		verifAssume(sc[0] != '/' || sc[shortcutLen-1] != '/') // not a regular expression rule
	}
	for i := 0; i < ndom; i++ {
		d := verifString(vn(p+".dom", i, ""), domLen, "zq.*")
		verifAssume(verifDomainOK(d))
		r.permittedDomains = append(r.permittedDomains, d)
	}
	if verifSymbolic() {
		return r
	}
	text := r.pattern
	if ndom > 0 {
		text += "$domain=" + verifJoin(r.permittedDomains, "|")
	}
	parsed, err := NewNetworkRule(text, 1)
	if err != nil {
		panic(verifSkip{"table rule rejected by the parser: " + text + ": " + err.Error()})
	}
	if parsed.Shortcut != r.Shortcut || len(parsed.permittedDomains) != ndom {
		panic(verifSkip{"parsed table rule differs: " + text})
	}
	verifRealised = append(verifRealised, text)
	return parsed
}

func verifJoin(xs []string, sep string) string {
	out := ""
	for i, x := range xs {
		if i > 0 {
			out += sep
		}
		out += x
	}
	return out
}

// verifMatchPatternLiteral replaces (*NetworkRule).matchPattern in the table
// harnesses: for a literal lower-case pattern the compiled expression accepts a
// URL iff the lower-cased URL contains it (C03 covers the compiled expression).
func verifMatchPatternLiteral(f *NetworkRule, r *Request) bool {
	if f.pattern == "*" {
		return true
	}
	return verifContainsFold(r.URL, f.pattern)
}

func verifContainsFold(u, lit string) bool {
	return strings.Contains(strings.ToLower(u), lit)
}

// ---------------------------------------------------------------------------
// C02 / C13: DNS engine harness helpers.

// VerifGarbageRequest is a request object as a pool may hand it out: every field arbitrary.
func VerifGarbageRequest(p string) *Request {
	r := &Request{}
	r.ClientName = verifString(p+".cn", 2, "ab")
	r.URL = verifString(p+".url", 3, "ab:/")
	r.URLLowerCase = verifString(p+".urll", 3, "ab:/")
	r.Hostname = verifString(p+".host", 2, "zq")
	r.Domain = verifString(p+".dom", 2, "ab")
	r.SourceURL = verifString(p+".surl", 2, "ab")
	r.SourceHostname = verifString(p+".shost", 2, "zq")
	r.SourceDomain = verifString(p+".sdom", 2, "ab")
	r.SortedClientTags = []string{verifString(p+".tag", 1, "ab")}
	r.RequestType = RequestType(verifU32(p + ".type"))
	r.DNSType = verifU16(p + ".dnstype")
	r.ThirdParty = verifBool(p + ".tp")
	r.IsHostnameRequest = verifBool(p + ".hr")
	if verifBool(p + ".hasip") {
		r.ClientIP = netip.AddrFrom4([4]byte{9, 9, 9, verifU8(p + ".ip")})
	}
	return r
}

// VerifDNSNetRule: a network rule for the DNS engine harness: literal pattern of
// patLen symbolic bytes over {a,b}, symbolic option words / type masks, optional
// $domain, optional $dnsrewrite, optional $dnstype=A.
func VerifDNSNetRule(p string, patLen int, withClient bool) *NetworkRule {
	r := &NetworkRule{RuleText: p, FilterListID: 1}
	sc := verifString(p+".pat", patLen, "zq")
	r.pattern = sc
	r.Shortcut = sc
	r.Whitelist = verifBool(p + ".whitelist")
	r.enabledOptions = NetworkRuleOption(verifU64(p + ".enabled"))
	r.disabledOptions = NetworkRuleOption(verifU64(p + ".disabled"))
	r.permittedRequestTypes = RequestType(verifU32(p + ".ptypes"))
	r.restrictedRequestTypes = RequestType(verifU32(p + ".rtypes"))
	r.permittedDomains = verifSymLen([]string{"zq.com"}, p+".npd")
	r.restrictedDomains = verifSymLen([]string{"qz.com"}, p+".nrd")
	r.permittedDNSTypes = verifSymLen([]RRType{1}, p+".npq")
	if verifBool(p + ".hasRewrite") {
		r.DNSRewrite = &DNSRewrite{NewCNAME: "c"}
	}
	// optional $client: the lower half of 9.9.9.0/24 and the name "a", permitted or excluded
	if withClient && verifBool(p+".hasClient") {
		c := &clients{hosts: []string{"a"}, nets: []netip.Prefix{netip.PrefixFrom(netip.AddrFrom4([4]byte{9, 9, 9, 0}), 25)}}
		if verifBool(p + ".clientExcluded") {
			r.restrictedClients = c
		} else {
			r.permittedClients = c
		}
	}
	verifAssume(verifInvOptions(r))
	verifAssume(verifRequestTypesOK(r))
	if verifSymbolic() {
		return r
	}
	var extra []string
	if r.DNSRewrite != nil {
		extra = append(extra, "dnsrewrite=c")
	}
	parsed := verifRealize(r, r.pattern, extra...)
	return parsed
}

// VerifHostLevel is the documented predicate: a rule is usable for DNS-level
// filtering iff it has no $domain, does not carry both content-type lists,
// disables nothing, and enables nothing but $important and $badfilter.
func VerifHostLevel(r *NetworkRule) bool {
	if len(r.permittedDomains) > 0 || len(r.restrictedDomains) > 0 {
		return false
	}
	if r.permittedRequestTypes != 0 && r.restrictedRequestTypes != 0 {
		return false
	}
	if r.disabledOptions != 0 {
		return false
	}
	return r.enabledOptions&^(OptionImportant|OptionBadfilter) == 0
}

// VerifHostRule: a hosts-file rule with nNames names of one symbolic letter pair and an IPv4 or IPv6 address.
// VerifHostAlphabet / VerifHostNameLen: alphabet and length of the names of host rules (set by the harness).
var VerifHostAlphabet = "zq"
var VerifHostNameLen = 2

func VerifHostRule(p string, nNames int) *HostRule {
	h := &HostRule{RuleText: p, FilterListID: 1}
	// address family: IPv4, IPv6, or an IPv4-mapped IPv6 address (which is an IPv6 address)
	kind := verifChoice(p+".ipkind", 3)
	text := "127.0.0.1"
	switch kind {
	case 0:
		h.IP = netip.AddrFrom4([4]byte{127, 0, 0, 1})
	case 1:
		h.IP = netip.IPv6Loopback()
		text = "::1"
	default:
		h.IP = netip.AddrFrom16([16]byte{0, 0, 0, 0, 0, 0, 0, 0, 0, 0, 0xff, 0xff, 1, 2, 3, 4})
		text = "::ffff:1.2.3.4"
	}
	for i := 0; i < nNames; i++ {
		n := verifString(vn(p+".name", i, ""), VerifHostNameLen, VerifHostAlphabet)
		h.Hostnames = append(h.Hostnames, n)
		text += " " + n
	}
	if !verifSymbolic() {
		parsed, err := NewHostRule(text, 1)
		if err != nil {
			panic(verifSkip{"host rule rejected: " + text})
		}
		verifRealised = append(verifRealised, text)
		return parsed
	}
	return h
}

// VerifClass: 0 none, 1 block, 2 important block, 3 exception, 4 important exception.
func VerifClass(r *NetworkRule) int {
	if r == nil {
		return 0
	}
	imp := r.enabledOptions&OptionImportant != 0
	switch {
	case r.Whitelist && imp:
		return 4
	case r.Whitelist:
		return 3
	case imp:
		return 2
	}
	return 1
}

// VerifRequestEqual compares every field of two requests.
func VerifRequestEqual(a, b *Request) bool {
	if a.ClientIP != b.ClientIP || a.ClientName != b.ClientName || a.URL != b.URL || a.URLLowerCase != b.URLLowerCase ||
		a.Hostname != b.Hostname || a.Domain != b.Domain || a.SourceURL != b.SourceURL || a.SourceHostname != b.SourceHostname ||
		a.SourceDomain != b.SourceDomain || a.RequestType != b.RequestType || a.DNSType != b.DNSType ||
		a.ThirdParty != b.ThirdParty || a.IsHostnameRequest != b.IsHostnameRequest {
		return false
	}
	if len(a.SortedClientTags) != len(b.SortedClientTags) {
		return false
	}
	eq := true
	for i := range a.SortedClientTags {
		if a.SortedClientTags[i] != b.SortedClientTags[i] {
			eq = false
		}
	}
	return eq
}

// ---- C06 wiring harness (root package)

// VerifC06Rule builds (and on replay re-parses) a symbolic rule of the verdict harnesses.
func VerifC06Rule(p string) *NetworkRule { return verifRealizeC06(verifC06Rule(p)) }

// VerifRefClass is the order-free documented verdict class (0 none, 1 block, 2 allow).
func VerifRefClass(rs, src []*NetworkRule) int { return verifRefClass(rs, src) }

// VerifVerdict: 0 none, 1 block, 2 allow.
func VerifVerdict(r *NetworkRule) int { return verifVerdict(r) }

// VerifPlainRule: a symbolic rule without $dnsrewrite (no fork at construction).
func VerifPlainRule(p string) *NetworkRule {
	r := verifSmallRule(p)
	return verifRealize(r, r.pattern)
}

// VerifTextWithPattern renders a (parsed or field-level) rule as text with another pattern.
func VerifTextWithPattern(r *NetworkRule, pattern string) string {
	t, ok := verifRuleText(r, pattern)
	if !ok {
		panic(verifSkip{"rule is not the image of a rule text"})
	}
	return t
}

// VerifAlwaysApplies: the rule carries nothing that depends on the request besides its pattern.
func VerifAlwaysApplies(r *NetworkRule) bool {
	return r.enabledOptions&(OptionThirdParty|OptionMatchCase) == 0 && r.disabledOptions == 0 &&
		r.permittedRequestTypes == 0 && r.restrictedRequestTypes == 0 && len(r.permittedDomains) == 0 && len(r.restrictedDomains) == 0
}

// VerifSourceDomain: the SourceDomain NewRequest derives from a source hostname.
func VerifSourceDomain(host string) string {
	if d := effectiveTLDPlusOne(host); d != "" {
		return d
	}
	return host
}
