package rules

// verifC14AtomRule: two Match calls on one shared rule whose pattern is compiled
// lazily; the second call runs after the verifYieldAt-th mutex release of the first.
func verifC14AtomRule(kind int) {
	texts := []string{"||zq^", "/z+q/", "z*q|", "|zq", "/z(/"}
	mk := func() *NetworkRule {
		r, err := NewNetworkRule(texts[kind], 1)
		if err != nil {
			panic(err)
		}
		return r
	}
	ua := "http://" + verifString("ua", 3, "zq./")
	ub := "http://" + verifString("ub", 3, "zq./")
	reqA := &Request{URL: ua, URLLowerCase: ua, Hostname: "zq"}
	reqB := &Request{URL: ub, URLLowerCase: ub, Hostname: "zq"}
	wa := mk().Match(reqA)
	wb := mk().Match(reqB)
	r := mk()
	if !verifSymbolic() {
		ok := verifStress(20000, func() bool { return r.Match(reqA) == wa }, func() bool { return r.Match(reqB) == wb })
		verifAssert(ok, "c14: a query interleaved with another query returns its sequential answer")
		return
	}
	rb, ran := false, false
	verifYieldAt = verifU8("yieldAt")
	verifOther = func() {
		rb = r.Match(reqB)
		ran = true
	}
	ra := r.Match(reqA)
	verifOther = nil
	verifReach("c14.atom.rule")
	verifAssert(ra == wa, "c14: a query interleaved with another query returns its sequential answer")
	if ran {
		verifReach("c14.atom.interleaved")
		verifAssert(rb == wb, "c14: the interleaving query returns its sequential answer")
	}
}
