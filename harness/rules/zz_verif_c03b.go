package rules

import (
	"encoding/json"
	"os"
	"strings"
)

// C03 (part b) and C05 — per concrete rule, for ALL URLs up to a length bound:
//   C03: compiled(pattern) accepts u  <=>  the reference mask automaton accepts u
//   C05: compiled(pattern) accepts u   =>  lower(u) contains the rule's shortcut
// The rule is parsed by the real parser (natively) and imported; the URL is symbolic.

var verifRuleTexts []string

// verifNativeRule returns rule i of the driver's list.  Symbolically it is
// imported from the native heap; natively it is parsed from VERIF_RULES.
func verifNativeRule(i int) *NetworkRule {
	if verifRuleTexts == nil {
		b, err := os.ReadFile(os.Getenv("VERIF_RULES"))
		if err != nil {
			panic(err)
		}
		if err = json.Unmarshal(b, &verifRuleTexts); err != nil {
			panic(err)
		}
	}
	r, err := NewNetworkRule(verifRuleTexts[i], 1)
	if err != nil {
		panic(verifSkip{"rule does not parse: " + verifRuleTexts[i]})
	}
	verifRealised = append(verifRealised, verifRuleTexts[i])
	return r
}

// verifB2I is ite(c,1,0) without a branch (intercepted by the executor).
func verifB2I(c bool) uint8 {
	if c {
		return 1
	}
	return 0
}

const verifPrintable = " !\"#$%&'()*+,-./0123456789:;<=>?@ABCDEFGHIJKLMNOPQRSTUVWXYZ[\\]^_`abcdefghijklmnopqrstuvwxyz{|}~"

func verifRange(c, lo, hi byte) uint8 { return verifB2I(c >= lo) & verifB2I(c <= hi) }

func verifIsLetter(c byte) uint8 {
	return verifRange(c, 'a', 'z') | verifRange(c, 'A', 'Z')
}

// verifIsSepByte: "any character but a letter, a digit, or one of: _ - . %".
func verifIsSepByte(c byte) uint8 {
	notSep := verifIsLetter(c) | verifRange(c, '0', '9') | verifB2I(c == '_') | verifB2I(c == '-') | verifB2I(c == '.') | verifB2I(c == '%')
	if verifKnown("D15") {
		// the implementation's class also excludes the space
		notSep |= verifB2I(c == ' ')
	}
	return 1 &^ notSep
}

// verifEqLit: c equals the pattern byte m (concrete), case-insensitively unless matchCase.
func verifEqLit(c, m byte, matchCase bool) uint8 {
	r := verifB2I(c == m)
	if !matchCase {
		if m >= 'a' && m <= 'z' {
			r |= verifB2I(c == m-32)
		} else if m >= 'A' && m <= 'Z' {
			r |= verifB2I(c == m+32)
		}
	}
	return r
}

// verifStartURLAt: u[:pos] is "scheme://" plus optional "subdomains." (the documented meaning of "||").
func verifStartURLAt(u string, pos int, matchCase bool) uint8 {
	var res uint8
	for _, scheme := range []string{"http://", "https://", "ws://", "wss://"} {
		k := len(scheme)
		if k > pos {
			continue
		}
		var pre uint8 = 1
		for i := 0; i < k; i++ {
			pre &= verifEqLit(u[i], scheme[i], matchCase)
		}
		if pos == k {
			res |= pre
			continue
		}
		if pos < k+2 {
			continue
		}
		ok := pre & verifB2I(u[pos-1] == '.')
		for i := k; i < pos-1; i++ {
			c := u[i]
			cls := verifRange(c, 'a', 'z') | verifRange(c, '0', '9') | verifB2I(c == '-') | verifB2I(c == '_') | verifB2I(c == '.')
			if !matchCase {
				cls |= verifRange(c, 'A', 'Z')
			}
			ok &= cls
		}
		res |= ok
	}
	return res
}

// verifRefMask is the reference automaton of the documented mask syntax.
func verifRefMask(p string, matchCase bool, u string) uint8 {
	if p == "||" || p == "|" || p == "*" || p == "" {
		return 1
	}
	start := 0
	mid := p
	if strings.HasPrefix(mid, "||") {
		start, mid = 2, mid[2:]
	} else if mid[0] == '|' {
		start, mid = 1, mid[1:]
	}
	end := false
	if len(mid) > 0 && mid[len(mid)-1] == '|' {
		end, mid = true, mid[:len(mid)-1]
	}
	n := len(mid)
	cur := make([]uint8, n+1)
	var accept uint8
	for pos := 0; pos <= len(u); pos++ {
		switch start {
		case 0:
			cur[0] = 1
		case 1:
			if pos == 0 {
				cur[0] = 1
			}
		case 2:
			cur[0] |= verifStartURLAt(u, pos, matchCase)
		}
		for j := 0; j < n; j++ {
			if mid[j] == '*' || (mid[j] == '^' && pos == len(u)) {
				cur[j+1] |= cur[j]
			}
		}
		if !end || pos == len(u) {
			accept |= cur[n]
		}
		if pos == len(u) {
			break
		}
		c := u[pos]
		next := make([]uint8, n+1)
		for j := 0; j < n; j++ {
			switch mid[j] {
			case '*':
				next[j] |= cur[j]
			case '^':
				next[j+1] |= cur[j] & verifIsSepByte(c)
			default:
				next[j+1] |= cur[j] & verifEqLit(c, mid[j], matchCase)
			}
		}
		cur = next
	}
	return accept
}

// verifMaskRules checks rules [from, from+count) for every URL length 0..maxL.
// mode 3: C03 language equality; mode 5: C05 shortcut soundness; mode 8: both.
func verifMaskRules(from, count, maxL, mode int) {
	for i := from; i < from+count; i++ {
		r := verifNativeRule(i)
		mc := r.enabledOptions&OptionMatchCase != 0
		for L := 0; L <= maxL; L++ {
			u := verifString(vn("u", i, vn("_", L, "")), L, verifPrintable)
			req := &Request{URL: u, URLLowerCase: strings.ToLower(u)}
			got := r.matchPattern(req)
			if mode == 3 || mode == 8 {
				want := verifRefMask(r.pattern, mc, u) != 0
				verifAssert(got == want, "c03: compiled pattern accepts exactly the language of the mask")
			}
			if mode == 5 || mode == 8 {
				verifAssert(!got || strings.Contains(req.URLLowerCase, r.Shortcut), "c05: an accepted URL contains the shortcut")
			}
		}
		verifReach("c03b.rule")
	}
}

// verifRegexRules: C05 for regular-expression rules (and hostname requests).
func verifRegexRules(from, count, maxL int) {
	for i := from; i < from+count; i++ {
		r := verifNativeRule(i)
		for L := 0; L <= maxL; L++ {
			u := verifString(vn("u", i, vn("_", L, "")), L, verifPrintable)
			req := &Request{URL: u, URLLowerCase: strings.ToLower(u)}
			got := r.matchPattern(req)
			if got {
				verifReach("c05.accepts")
			}
			verifAssert(!got || strings.Contains(req.URLLowerCase, r.Shortcut), "c05: an accepted URL contains the shortcut ["+r.RuleText+"]")
		}
		verifReach("c05.rule")
	}
}

func verifMaskVacuity() {
	r := verifNativeRule(0)
	u := verifString("u", 4, verifPrintable)
	req := &Request{URL: u, URLLowerCase: strings.ToLower(u)}
	_ = r.matchPattern(req)
	verifAssert(false, "vacuity")
}

const verifHostChars = "abcdefghijklmnopqrstuvwxyzABCDEFGHIJKLMNOPQRSTUVWXYZ0123456789.-"

// verifRegexRulesHost: C05 for hostname requests, where the compiled pattern may be
// matched against the bare hostname while the shortcut is tested against "http://"+hostname.
func verifRegexRulesHost(from, count, maxL int) {
	for i := from; i < from+count; i++ {
		r := verifNativeRule(i)
		for L := 1; L <= maxL; L++ {
			h := verifString(vn("h", i, vn("_", L, "")), L, verifHostChars)
			// the fields FillRequestForHostname sets, minus the registrable domain
			// (the public suffix list plays no role for the pattern and the shortcut; C17 covers it)
			req := &Request{IsHostnameRequest: true, Hostname: h, URL: "http://" + h, RequestType: TypeDocument}
			req.URLLowerCase = strings.ToLower(req.URL)
			got := r.matchPattern(req)
			if got {
				verifReach("c05.host.accepts")
			}
			verifAssert(!got || strings.Contains(req.URLLowerCase, r.Shortcut), "c05: an accepted hostname request contains the shortcut ["+r.RuleText+"]")
		}
	}
}
