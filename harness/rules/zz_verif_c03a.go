package rules

// C03 (part a) / C12 — patternToRegexp on a symbolic pattern: no crash, and the
// output is the token-by-token translation of the documented mask syntax.

const verifRegexSpecials = ".+?${}()[]/\\"

func verifIsSpecial(c byte) bool {
	for i := 0; i < len(verifRegexSpecials); i++ {
		if verifRegexSpecials[i] == c {
			return true
		}
	}
	return false
}

// verifRefPatternToRegexp is written from the documentation of the mask syntax.
func verifRefPatternToRegexp(p string) string {
	if p == "||" || p == "|" || p == "*" || p == "" {
		return ".*"
	}
	if len(p) > 1 && p[0] == '/' && p[len(p)-1] == '/' {
		return p[1 : len(p)-1]
	}
	out := ""
	rest := p
	if len(rest) >= 2 && rest[0] == '|' && rest[1] == '|' {
		out = RegexStartURL
		rest = rest[2:]
	} else if rest[0] == '|' {
		out = "^"
		rest = rest[1:]
	}
	end := ""
	if len(rest) > 0 && rest[len(rest)-1] == '|' {
		end = "$"
		rest = rest[:len(rest)-1]
	}
	for i := 0; i < len(rest); i++ {
		c := rest[i]
		switch {
		case c == '*':
			out += ".*"
		case c == '^':
			out += RegexSeparator
		case c == '|':
			out += "\\|"
		case verifIsSpecial(c):
			out += "\\" + string(c)
		default:
			out += string(c)
		}
	}
	return out + end
}

func verifC03a(n int) {
	p := verifString("p", n, "a.*^|/$\\")
	if verifKnown("D1") {
		verifAssume(n != 1)
	}
	got := patternToRegexp(p)
	verifReach("c03a.translated")
	want := verifRefPatternToRegexp(p)
	verifAssert(got == want, "c03a: patternToRegexp == token-by-token translation of the mask syntax")
}

func verifC03aVacuity() {
	p := verifString("p", 3, "a.*^|/$\\")
	_ = patternToRegexp(p)
	verifAssert(false, "vacuity")
}
