package rules

import (
	"strings"

	"github.com/AdguardTeam/urlfilter/filterutil"
	"golang.org/x/net/publicsuffix"
)

// C17 — request fields agree with the standard URL parser and the Public Suffix List.

var verifTails = []string{"", ".com", ".co.uk", ".org"}

// verifHost: labels over {x,q} and dots (no empty labels) followed by a tail from the menu.
func verifHost(name string, n int, tail int, alphabet string) string {
	h := verifString(name, n, alphabet)
	if n > 0 {
		verifAssume(h[0] != '.' && h[n-1] != '.')
	}
	for i := 0; i+1 < n; i++ {
		verifAssume(!(h[i] == '.' && h[i+1] == '.'))
	}
	return h + verifTails[tail]
}

// verifURL builds scheme://host[:port][rest] per the grammar of the property.
// shape: 0 nothing, 1 "/"+2 bytes, 2 "?"+2 bytes, 3 ":8"+"/"+1 byte, 4 "/"+1 byte+"#"+1 byte, 5 ":80"
func verifURL(name string, host string, shape int) string {
	sl := 1 + verifChoice(name+".scheme.len", 3)
	scheme := verifString(name+".scheme", sl, "ah+.")
	u := scheme + "://" + host
	switch shape {
	case 1:
		u += "/" + verifString(name+".rest", 2, "a/?:#@")
	case 2:
		u += "?" + verifString(name+".rest", 2, "a/?:#@")
	case 3:
		u += ":8/" + verifString(name+".rest", 1, "a/?:#@")
	case 4:
		u += "/" + verifString(name+".rest", 1, "a/?:") + "#" + verifString(name+".frag", 1, "a/?:#")
	case 5:
		u += ":80"
	}
	return u
}

func verifC17Extract(hostLen, tail, shape int) {
	host := verifHost("host", hostLen, tail, "zq.-1")
	verifAssume(len(host) > 0)
	u := verifURL("u", host, shape)
	verifNote(u)
	got := filterutil.ExtractHostname(u)
	verifReach("c17.extract")
	verifAssert(got == host, "c17: ExtractHostname returns the host of a well-formed hierarchical URL")
}

// verifRefETLD1: the registrable domain according to the Public Suffix List
// library's own EffectiveTLDPlusOne ("" when there is none).
func verifRefETLD1(h string) string {
	d, err := publicsuffix.EffectiveTLDPlusOne(h)
	if err != nil {
		return ""
	}
	return d
}

func verifC17ETLD(hostLen, tail int) {
	h := verifHost("h", hostLen, tail, "zq.")
	got := effectiveTLDPlusOne(h)
	want := ""
	if len(h) > 0 {
		want = verifRefETLD1(h)
	}
	if want != "" {
		verifReach("c17.etld.some")
	} else {
		verifReach("c17.etld.none")
	}
	verifAssert(got == want, "c17: registrable domain == publicsuffix.EffectiveTLDPlusOne (or none)")
}

func verifDomainOf(h string) string {
	if h == "" {
		return ""
	}
	if d := verifRefETLD1(h); d != "" {
		return d
	}
	return h
}

func verifC17Request(hostLen, tail, shape, srcLen, srcTail int) {
	host := verifHost("host", hostLen, tail, "zq.")
	verifAssume(len(host) > 0)
	u := verifURL("u", host, shape)
	src := ""
	shost := ""
	if srcLen >= 0 {
		shost = verifHost("shost", srcLen, srcTail, "zq.")
		verifAssume(len(shost) > 0)
		src = verifURL("s", shost, 1)
	}
	r := NewRequest(u, src, TypeScript)
	verifReach("c17.request")
	verifAssert(r.URL == u && r.SourceURL == src && r.RequestType == TypeScript, "c17: URL, source and type are stored")
	verifAssert(r.URLLowerCase == strings.ToLower(u), "c17: URLLowerCase is the lower-cased URL")
	verifAssert(r.Hostname == host, "c17: Hostname is the URL's host")
	verifAssert(r.SourceHostname == shost, "c17: SourceHostname is the source URL's host")
	verifAssert(r.Domain == verifDomainOf(host), "c17: Domain is eTLD+1, or the hostname when there is none")
	verifAssert(r.SourceDomain == verifDomainOf(shost), "c17: SourceDomain is eTLD+1 of the source, or its hostname")
	third := src != "" && verifDomainOf(shost) != verifDomainOf(host)
	if third {
		verifReach("c17.thirdparty")
	}
	verifAssert(r.ThirdParty == third, "c17: third-party iff there is a source with a different registrable domain")
	verifAssert(!r.IsHostnameRequest, "c17: URL requests are not hostname requests")
	if src != "" {
		rr := NewRequest(src, u, TypeScript)
		verifAssert(rr.ThirdParty == r.ThirdParty, "c17: third-party is symmetric in (url, source)")
	}
}

func verifC17Hostname(hostLen, tail int) {
	h := verifHost("h", hostLen, tail, "zqZ.")
	verifAssume(len(h) > 0)
	if verifKnown("D11") {
		verifAssume(h == strings.ToLower(h))
	}
	r := NewRequestForHostname(h)
	verifReach("c17.hostname")
	verifAssert(r.Hostname == h && r.URL == "http://"+h, "c17: hostname requests use http://<hostname>")
	verifAssert(r.URLLowerCase == strings.ToLower(r.URL), "c17: URLLowerCase is the lower-cased URL (hostname request)")
	verifAssert(r.Domain == verifDomainOf(h), "c17: Domain of a hostname request")
	verifAssert(r.IsHostnameRequest && !r.ThirdParty && r.RequestType == TypeDocument && r.SourceURL == "", "c17: hostname request defaults")
}

// verifC17Cap: URLs longer than 4 KiB are capped before anything is derived from them.
func verifC17Cap() {
	pad := strings.Repeat("a", maxURLLength-len("http://zq.com/")-4)
	tailS := verifString("tail", 8, "aA/#")
	u := "http://zq.com/" + pad + tailS
	r := NewRequest(u, "", TypeImage)
	verifReach("c17.cap")
	verifAssert(len(r.URL) == maxURLLength && r.URL == u[:maxURLLength], "c17: the URL is capped at 4 KiB")
	verifAssert(r.URLLowerCase == strings.ToLower(u[:maxURLLength]), "c17: URLLowerCase is the lower-cased capped URL")
	verifAssert(r.Hostname == "zq.com" && r.Domain == "zq.com", "c17: host of a capped URL")
}

// verifC17SourceCap: with an over-long source URL the source fields still come from the
// source (short and long request URLs) and nothing crashes.
func verifC17SourceCap(longURL int) {
	pad := strings.Repeat("a", maxURLLength-len("http://qz.org/")-4)
	tailS := verifString("tail", 8, "aA/#")
	src := "http://qz.org/" + pad + tailS
	u := "http://zq.com/x"
	if longURL == 1 {
		u = "http://zq.com/" + pad + tailS
	}
	r := NewRequest(u, src, TypeImage)
	verifReach("c17.sourcecap")
	verifAssert(r.SourceHostname == "qz.org" && r.SourceDomain == "qz.org", "c17: source host of a capped source URL")
	verifAssert(r.Hostname == "zq.com" && r.Domain == "zq.com" && r.ThirdParty, "c17: third-party iff there is a source with a different registrable domain")
}

func verifC17Vacuity() {
	h := verifHost("h", 3, 1, "zq.")
	_ = effectiveTLDPlusOne(h)
	verifAssert(false, "vacuity")
}
