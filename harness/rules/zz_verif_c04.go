package rules

import (
	"net/netip"
	"strings"

	"github.com/AdguardTeam/urlfilter/filterutil"
	"golang.org/x/net/publicsuffix"
)

// C04 — a rule matches iff its pattern and every modifier are satisfied.
//
// The rule is produced by the real parser from the modifier grammar (natively)
// and imported; the request is symbolic field by field.  The pattern is
// "||example.org^" and the URL is fixed so that the pattern conjunct is true.

// verifRefDomainMatch: documented semantics of one $domain / $denyallow value d for host h.
func verifRefDomainMatch(h, d string) bool {
	if strings.HasSuffix(d, ".*") {
		name := d[:len(d)-2]
		tld, icann := publicsuffix.PublicSuffix(h)
		if tld == "" || !icann {
			return false
		}
		full := name + "." + tld
		return h == full || strings.HasSuffix(h, "."+full)
	}
	return h == d || strings.HasSuffix(h, "."+d)
}

func verifRefAnyDomain(h string, ds []string) bool {
	m := false
	for _, d := range ds {
		if verifRefDomainMatch(h, d) {
			m = true
		}
	}
	return m
}

func verifRefClients(c *clients, name string, ip netip.Addr) bool {
	if c == nil {
		return false
	}
	m := false
	if name != "" {
		for _, h := range c.hosts {
			if h == name {
				m = true
			}
		}
	}
	if ip != (netip.Addr{}) {
		for _, n := range c.nets {
			if n.Contains(ip) {
				m = true
			}
		}
	}
	return m
}

func verifRefTags(ruleTags, reqTags []string) bool {
	m := false
	for _, a := range ruleTags {
		for _, b := range reqTags {
			if a == b {
				m = true
			}
		}
	}
	return m
}

// verifRefModifiers: every modifier of r holds for q (the documented meaning).
func verifRefModifiers(r *NetworkRule, q *Request) bool {
	ok := true
	if r.enabledOptions&OptionThirdParty != 0 && !q.ThirdParty {
		ok = false
	}
	if r.disabledOptions&OptionThirdParty != 0 && q.ThirdParty {
		ok = false
	}
	if r.permittedRequestTypes != 0 && r.permittedRequestTypes&q.RequestType == 0 {
		ok = false
	}
	if r.restrictedRequestTypes != 0 && r.restrictedRequestTypes&q.RequestType != 0 {
		ok = false
	}
	// $domain on the source hostname: exclusion beats inclusion
	if verifRefAnyDomain(q.SourceHostname, r.restrictedDomains) {
		ok = false
	}
	if len(r.permittedDomains) > 0 && !verifRefAnyDomain(q.SourceHostname, r.permittedDomains) {
		ok = false
	}
	// $denyallow on the request host
	if len(r.denyAllowDomains) > 0 {
		if q.IsHostnameRequest && verifIsIP(q.Hostname) {
			ok = false
		} else if verifRefAnyDomain(q.Hostname, r.denyAllowDomains) {
			ok = false
		}
	}
	// $dnstype
	for _, t := range r.restrictedDNSTypes {
		if t == q.DNSType {
			ok = false
		}
	}
	if len(r.permittedDNSTypes) > 0 {
		in := false
		for _, t := range r.permittedDNSTypes {
			if t == q.DNSType {
				in = true
			}
		}
		if !in {
			ok = false
		}
	}
	// $ctag
	if verifRefTags(r.restrictedClientTags, q.SortedClientTags) {
		ok = false
	}
	if len(r.permittedClientTags) > 0 && !verifRefTags(r.permittedClientTags, q.SortedClientTags) {
		ok = false
	}
	// $client
	if verifRefClients(r.restrictedClients, q.ClientName, q.ClientIP) {
		ok = false
	}
	if r.permittedClients.Len() > 0 && !verifRefClients(r.permittedClients, q.ClientName, q.ClientIP) {
		ok = false
	}
	return ok
}

func verifIsIP(h string) bool {
	if !filterutil.IsProbablyIP(h) {
		return false
	}
	_, err := netip.ParseAddr(h)
	return err == nil
}

var verifC04Tails = []string{"", ".com", ".co.uk", ".org"}

func verifC04Host(name string, n, tail int) string {
	if n < 0 {
		return ""
	}
	// the request host also draws from a hexadecimal letter: "dd.d" passes the cheap
	// IsProbablyIP character test without being an address ($denyallow, hostname requests)
	alphabet := "zq."
	if name == "host" {
		alphabet = "zqd."
	}
	h := verifString(name, n, alphabet)
	if n > 0 {
		verifAssume(h[0] != '.' && h[n-1] != '.')
	}
	for i := 0; i+1 < n; i++ {
		verifAssume(!(h[i] == '.' && h[i+1] == '.'))
	}
	return h + verifC04Tails[tail]
}

// verifC04 checks rule i against all requests with source host of srcLen
// symbolic bytes + tail and request host of hostLen symbolic bytes + tail
// (negative length: empty string).
func verifC04(i, srcLen, srcTail, hostLen, hostTail int) {
	r := verifNativeRule(i)
	q := &Request{URL: "http://example.org/x", URLLowerCase: "http://example.org/x"}
	q.SourceHostname = verifC04Host("src", srcLen, srcTail)
	q.Hostname = verifC04Host("host", hostLen, hostTail)
	q.ThirdParty = verifBool("q.thirdparty")
	q.IsHostnameRequest = verifBool("q.hostnamereq")
	t := verifU32("q.type")
	verifAssume(t != 0 && t&(t-1) == 0 && t < 1<<12)
	q.RequestType = RequestType(t)
	q.DNSType = verifU16("q.dnstype")
	if r.permittedClients != nil || r.restrictedClients != nil {
		q.ClientName = verifString("q.client", verifChoice("q.client.len", 2), "abc")
		switch verifChoice("q.ip.kind", 3) {
		case 1:
			q.ClientIP = netip.AddrFrom4([4]byte{1, 2, verifU8("q.ip2"), verifU8("q.ip3")})
		case 2:
			var b [16]byte
			b[0], b[1], b[2], b[3] = 0x20, 0x01, 0x0d, verifU8("q.ip6.3")
			b[15] = verifU8("q.ip6.15")
			q.ClientIP = netip.AddrFrom16(b)
		}
	}
	if len(r.permittedClientTags) > 0 || len(r.restrictedClientTags) > 0 {
		nt := verifChoice("q.ntags", 3)
		tags := make([]string, nt)
		for k := range tags {
			tags[k] = verifString(vn("q.tag", k, ""), 1, "abcd")
			if k > 0 {
				verifAssume(tags[k-1] < tags[k]) // documented: the tags are sorted
			}
		}
		q.SortedClientTags = tags
	}
	if verifKnown("D13") {
		// wildcard-TLD value whose name is a proper label suffix of the registrable label
		for _, d := range r.permittedDomains {
			verifAssume(!strings.HasSuffix(d, ".*"))
		}
		for _, d := range r.restrictedDomains {
			verifAssume(!strings.HasSuffix(d, ".*"))
		}
	}
	want := verifRefModifiers(r, q)
	got := r.Match(q)
	if want {
		verifReach("c04.match")
	} else {
		verifReach("c04.nomatch")
	}
	verifAssert(got == want, "c04: rule.Match == pattern and every modifier (reference semantics)")
}

func verifC04Vacuity() {
	r := verifNativeRule(0)
	q := &Request{URL: "http://example.org/x", URLLowerCase: "http://example.org/x"}
	q.SourceHostname = verifC04Host("src", 3, 1)
	_ = r.Match(q)
	verifAssert(false, "vacuity")
}

// verifDocTargetIsURL: the documented choice of the match target for hostname
// requests: patterns that speak about the scheme or the start of the address
// ("||", "http://", "https://", "://") and "/hostname." path patterns are matched
// against the URL "http://<hostname>", everything else against the bare hostname.
func verifDocTargetIsURL(p string) bool {
	if strings.HasPrefix(p, "||") || strings.HasPrefix(p, "http://") || strings.HasPrefix(p, "https://") || strings.HasPrefix(p, "://") {
		return true
	}
	if len(p) > 3 && p[0] == '/' && p[len(p)-1] == '.' {
		for i := 1; i < len(p)-1; i++ {
			c := p[i]
			if !((c >= 'a' && c <= 'z') || (c >= 'A' && c <= 'Z') || (c >= '0' && c <= '9') || c == '.' || c == '-') {
				return false
			}
		}
		return true
	}
	return false
}

// verifC04Target: for hostname requests the pattern is applied to the documented target.
// Rules [from, from+count) of the driver's mask list; hostname of L symbolic bytes.
func verifC04Target(from, count, L int) {
	for i := from; i < from+count; i++ {
		r := verifNativeRule(i)
		mc := r.enabledOptions&OptionMatchCase != 0
		h := verifString(vn("h", i, ""), L, verifHostChars)
		req := &Request{IsHostnameRequest: true, Hostname: h, URL: "http://" + h, RequestType: TypeDocument}
		req.URLLowerCase = strings.ToLower(req.URL)
		got := r.matchPattern(req)
		target := h
		if verifDocTargetIsURL(r.pattern) {
			target = req.URL
			verifReach("c04.target.url")
		} else {
			verifReach("c04.target.hostname")
		}
		want := verifRefMask(r.pattern, mc, target) != 0
		verifAssert(got == want, "c04: for a hostname request the pattern is applied to the documented target (URL or bare hostname)")
	}
}

// verifC04Parse: the values the parser stores for grammar rule i are exactly the values written
// in its text (as a set, per modifier).  The expected list comes from the driver's grammar.
func verifC04Parse(i int) {
	text := verifKeywordList("c04text")[i]
	want := verifKeywordList(vn("c04want", i, ""))
	r, err := NewNetworkRule(text, 1)
	verifAssert(err == nil && r != nil, "c04: a grammar rule is accepted by the parser")
	if err != nil || r == nil {
		return
	}
	var got []string
	vals := VerifModifierValues(r)
	for _, m := range []string{"tp", "type", "domain", "denyallow", "dnstype", "ctag", "client"} {
		for _, v := range vals[m] {
			got = append(got, m+"="+v)
		}
	}
	verifReach("c04.parse")
	verifAssert(len(got) == len(want), "c04: the parser stores exactly the values written in the modifier (count) ["+text+"]")
	for _, w := range want {
		found := false
		for _, g := range got {
			if g == w {
				found = true
			}
		}
		verifAssert(found, "c04: the parser stores exactly the values written in the modifier ["+text+"]")
	}
}
