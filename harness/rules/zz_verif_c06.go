package rules

// C06 — the verdict follows the documented precedence, whatever the rule order.

const (
	verifNone  = 0
	verifBlock = 1
	verifAllow = 2
)

func verifVerdict(r *NetworkRule) int {
	if r == nil {
		return verifNone
	}
	if r.Whitelist {
		return verifAllow
	}
	return verifBlock
}

// verifC06Rule: a symbolic rule for verdict harnesses (may carry $dnsrewrite).
func verifC06Rule(p string) *NetworkRule {
	r := verifSmallRule(p)
	if verifBool(p + ".hasRewrite") {
		r.DNSRewrite = &DNSRewrite{NewCNAME: "c"}
	}
	return r
}

func verifRealizeC06(r *NetworkRule) *NetworkRule {
	if verifSymbolic() {
		return r
	}
	var extra []string
	if r.DNSRewrite != nil {
		extra = append(extra, "dnsrewrite=c")
	}
	p := verifRealize(r, r.pattern, extra...)
	return p
}

// verifEffective: rules that can take part in the verdict: no $dnsrewrite, not
// $badfilter, not disabled by a $badfilter twin.
func verifEffective(r *NetworkRule, all []*NetworkRule) bool {
	if r.DNSRewrite != nil || r.enabledOptions&OptionBadfilter != 0 {
		return false
	}
	ok := true
	for _, b := range all {
		if verifTwin(b, r) {
			ok = false
		}
	}
	return ok
}

const verifSpecial = OptionStealth | OptionCookie | OptionCsp | OptionReplace

// verifRefClass computes the documented verdict class without looking at the order.
func verifRefClass(rs, src []*NetworkRule) int {
	urlblock, genericblock, doc := false, false, false
	for _, r := range src {
		if verifEffective(r, src) && r.Whitelist {
			if r.enabledOptions&OptionUrlblock != 0 {
				urlblock, doc = true, true
			}
			if r.enabledOptions&OptionGenericblock != 0 {
				genericblock, doc = true, true
			}
		}
	}
	impAllow, impBlock, allow, block := false, false, false, false
	for _, r := range rs {
		if !verifEffective(r, rs) || r.enabledOptions&verifSpecial != 0 {
			continue
		}
		imp := r.enabledOptions&OptionImportant != 0
		if r.Whitelist {
			if imp {
				impAllow = true
			} else {
				allow = true
			}
			continue
		}
		if urlblock || (genericblock && len(r.permittedDomains) == 0) {
			continue
		}
		if imp {
			impBlock = true
		} else {
			block = true
		}
	}
	switch {
	case impAllow:
		return verifAllow
	case impBlock:
		return verifBlock
	case allow:
		return verifAllow
	case block:
		return verifBlock
	case doc:
		return verifAllow
	}
	return verifNone
}

func verifD14Region(src []*NetworkRule) bool {
	// more than one document-level exception on the referrer with different flags
	n := 0
	for _, r := range src {
		if r.Whitelist && r.enabledOptions&(OptionUrlblock|OptionGenericblock) != 0 {
			n++
		}
	}
	return n > 1
}

func verifC06Web(k, s int) {
	rs := make([]*NetworkRule, k)
	for i := range rs {
		rs[i] = verifRealizeC06(verifC06Rule(vn("r", i, "")))
	}
	src := make([]*NetworkRule, s)
	for i := range src {
		src[i] = verifRealizeC06(verifC06Rule(vn("s", i, "")))
	}
	if verifKnown("D14") {
		verifAssume(!verifD14Region(src))
	}
	want := verifRefClass(rs, src)
	m := NewMatchingResult(rs, src)
	res := m.GetBasicResult()
	got := verifVerdict(res)
	switch want {
	case verifAllow:
		verifReach("c06.allow")
	case verifBlock:
		verifReach("c06.block")
	default:
		verifReach("c06.none")
	}
	verifAssert(got == want, "c06: web verdict class == documented precedence")
	if res != nil {
		verifAssert(res.DNSRewrite == nil, "c06: a $dnsrewrite rule never becomes the basic result")
		verifAssert(res.enabledOptions&OptionBadfilter == 0, "c06: a $badfilter rule never becomes the basic result")
		verifAssert(res.enabledOptions&OptionStealth == 0 || res == m.DocumentRule, "c06: a $stealth rule never becomes the basic result")
		in := verifIn(res, rs) || verifIn(res, src)
		verifAssert(in, "c06: the result is one of the given rules")
		// C07: the selected rule is never outranked by another candidate of the request list
		if m.BasicRule != nil {
			for _, r := range rs {
				if verifEffective(r, rs) && r.enabledOptions&verifSpecial == 0 && verifVerdict(r) == got {
					verifAssert(!r.IsHigherPriority(res) || verifSuppressed(r, src), "c06/c07: the selected rule is not outranked by a candidate of its class")
				}
			}
		}
	}
}

// verifSuppressed: blocking rule r is switched off by a referrer-level exception.
func verifSuppressed(r *NetworkRule, src []*NetworkRule) bool {
	if r.Whitelist {
		return false
	}
	sup := false
	for _, d := range src {
		if verifEffective(d, src) && d.Whitelist {
			if d.enabledOptions&OptionUrlblock != 0 {
				sup = true
			}
			if d.enabledOptions&OptionGenericblock != 0 && len(r.permittedDomains) == 0 {
				sup = true
			}
		}
	}
	return sup
}

func verifC06DNS(k int) {
	rs := make([]*NetworkRule, k)
	for i := range rs {
		rs[i] = verifRealizeC06(verifC06Rule(vn("r", i, "")))
	}
	want := verifRefClass(rs, nil)
	res := GetDNSBasicRule(rs)
	got := verifVerdict(res)
	if want != verifNone {
		verifReach("c06.dns")
	}
	verifAssert(got == want, "c06: DNS verdict class == documented precedence")
	if res != nil {
		verifAssert(res.DNSRewrite == nil && res.enabledOptions&(OptionBadfilter|OptionStealth) == 0, "c06: rewrite, badfilter and stealth rules never become the DNS basic rule")
		for _, r := range rs {
			if verifEffective(r, rs) && r.enabledOptions&verifSpecial == 0 {
				verifAssert(!r.IsHigherPriority(res), "c06/c07: the selected DNS rule is not outranked by any candidate")
			}
		}
	}
}

func verifSameFields(a, b *NetworkRule) bool {
	return a.Whitelist == b.Whitelist && a.enabledOptions == b.enabledOptions && a.pattern == b.pattern &&
		a.permittedRequestTypes == b.permittedRequestTypes && len(a.permittedDomains) == len(b.permittedDomains) &&
		(a.DNSRewrite == nil) == (b.DNSRewrite == nil)
}

// verifC06Twin: adding x together with x$badfilter at positions px, pb leaves the verdict unchanged (C08).
func verifC06Twin(k, px, pb int) {
	base := make([]*NetworkRule, k)
	for i := range base {
		base[i] = verifRealizeC06(verifC06Rule(vn("r", i, "")))
	}
	x := verifC06Rule("x")
	verifAssume(x.enabledOptions&OptionBadfilter == 0)
	xb := verifC06Rule("xb")
	verifAssume(xb.enabledOptions == x.enabledOptions|OptionBadfilter && xb.Whitelist == x.Whitelist && xb.pattern == x.pattern &&
		xb.permittedRequestTypes == x.permittedRequestTypes && len(xb.permittedDomains) == len(x.permittedDomains) &&
		(xb.DNSRewrite == nil) == (x.DNSRewrite == nil))
	for _, r := range base {
		// x is structurally distinct from every rule of the base list (also from their badfilter-free forms)
		verifAssume(!(r.Whitelist == x.Whitelist && r.enabledOptions&^OptionBadfilter == x.enabledOptions && r.pattern == x.pattern &&
			r.permittedRequestTypes == x.permittedRequestTypes && len(r.permittedDomains) == len(x.permittedDomains) &&
			(r.DNSRewrite == nil) == (x.DNSRewrite == nil)))
	}
	x = verifRealizeC06(x)
	xb = verifRealizeC06(xb)
	ext := make([]*NetworkRule, 0, k+2)
	for i := 0; i <= k; i++ {
		if i == px {
			ext = append(ext, x)
		}
		if i == pb {
			ext = append(ext, xb)
		}
		if i < k {
			ext = append(ext, base[i])
		}
	}
	v0 := verifVerdict(NewMatchingResult(base, nil).GetBasicResult())
	v1 := verifVerdict(NewMatchingResult(ext, nil).GetBasicResult())
	d0 := verifVerdict(GetDNSBasicRule(base))
	d1 := verifVerdict(GetDNSBasicRule(ext))
	verifReach("c06.twin")
	verifAssert(v0 == v1, "c08: adding a rule together with its badfilter twin leaves the web verdict unchanged")
	verifAssert(d0 == d1, "c08: adding a rule together with its badfilter twin leaves the DNS verdict unchanged")
}

func verifC06Vacuity() {
	rs := []*NetworkRule{verifC06Rule("r0"), verifC06Rule("r1")}
	_ = NewMatchingResult(rs, nil).GetBasicResult()
	verifAssert(false, "vacuity")
}
