package rules

import "slices"

// C08 — $badfilter disables exactly its twin rules.

// verifTwinRule builds a rule whose every field that distinguishes rules is
// symbolic: flags, option words, type masks, pattern, and the *contents* of the
// value lists (lengths 0..1 or 0..2, entries one symbolic byte).
func verifTwinRule(p string, maxList int) *NetworkRule {
	r := &NetworkRule{}
	r.Whitelist = verifBool(p + ".whitelist")
	r.enabledOptions = NetworkRuleOption(verifU64(p + ".enabled"))
	r.disabledOptions = NetworkRuleOption(verifU64(p + ".disabled"))
	r.permittedRequestTypes = RequestType(verifU32(p + ".ptypes"))
	r.restrictedRequestTypes = RequestType(verifU32(p + ".rtypes"))
	r.pattern = "||" + verifString(p+".pat", 1, "ab") + "^"
	r.permittedDomains = verifSymLen(verifSymNames(p+".pd", ".com", maxList, false), p+".npd")
	r.restrictedDomains = verifSymLen(verifSymNames(p+".rd", ".com", maxList, false), p+".nrd")
	r.denyAllowDomains = verifSymLen(verifSymNames(p+".da", ".com", maxList, false), p+".nda")
	r.permittedClientTags = verifSymLen(verifSymNames(p+".pt", "", maxList, true), p+".npt")
	r.restrictedClientTags = verifSymLen(verifSymNames(p+".rt", "", maxList, true), p+".nrt")
	r.permittedDNSTypes = verifSymLen(verifSymRRs(p+".pq", maxList), p+".npq")
	r.restrictedDNSTypes = verifSymLen(verifSymRRs(p+".rq", maxList), p+".nrq")
	if verifBool(p + ".hasPermClients") {
		c := &clients{hosts: verifSymLen(verifSymNames(p+".pc", "", maxList, true), p+".npc")}
		verifAssume(len(c.hosts) > 0)
		r.permittedClients = c
	}
	if verifBool(p + ".hasRestClients") {
		c := &clients{hosts: verifSymLen(verifSymNames(p+".rc", "", maxList, true), p+".nrc")}
		verifAssume(len(c.hosts) > 0)
		r.restrictedClients = c
	}
	if verifBool(p + ".hasRewrite") {
		r.DNSRewrite = &DNSRewrite{NewCNAME: verifString(p+".cname", 1, "ab")}
	}
	verifAssume(verifInvOptions(r))
	verifAssume(verifRequestTypesOK(r))
	return r
}

// verifSymNames: n names, each one symbolic letter followed by suffix.  The
// parser sorts $ctag values and $client names (slices.Sort, duplicates kept), so
// those lists are non-decreasing (sorted == true); $domain and $denyallow values
// are stored in the order written, duplicates included, so those are arbitrary.
func verifSymNames(name, suffix string, n int, sorted bool) []string {
	out := make([]string, n)
	for i := range out {
		out[i] = verifString(vn(name, i, ""), 1, "abc") + suffix
		if i > 0 && sorted {
			verifAssume(out[i-1] <= out[i])
		}
	}
	return out
}

func verifSymRRs(name string, n int) []RRType {
	out := make([]RRType, n)
	for i := range out {
		k := verifU8(vn(name, i, ""))
		verifAssume(k == 1 || k == 28 || k == 15)
		out[i] = RRType(k)
	}
	return out
}

func verifStrsEq(a, b []string) bool {
	if len(a) != len(b) {
		return false
	}
	eq := true
	for i := range a {
		if a[i] != b[i] {
			eq = false
		}
	}
	return eq
}

func verifRRsEq(a, b []RRType) bool {
	if len(a) != len(b) {
		return false
	}
	eq := true
	for i := range a {
		if a[i] != b[i] {
			eq = false
		}
	}
	return eq
}

func verifClientsEq(a, b *clients) bool {
	if a == nil || b == nil {
		return a == nil && b == nil
	}
	return verifStrsEq(a.hosts, b.hosts) && len(a.nets) == len(b.nets)
}

func verifRewriteEq(a, b *DNSRewrite) bool {
	if a == nil || b == nil {
		return a == nil && b == nil
	}
	return a.NewCNAME == b.NewCNAME && a.RCode == b.RCode && a.RRType == b.RRType
}

// verifTwin is the reference: b is r plus the badfilter modifier and nothing else differs.
func verifTwin(b, r *NetworkRule) bool {
	return b.enabledOptions&OptionBadfilter != 0 &&
		r.enabledOptions&OptionBadfilter == 0 &&
		b.enabledOptions&^OptionBadfilter == r.enabledOptions &&
		b.disabledOptions == r.disabledOptions &&
		b.Whitelist == r.Whitelist &&
		b.pattern == r.pattern &&
		b.permittedRequestTypes == r.permittedRequestTypes &&
		b.restrictedRequestTypes == r.restrictedRequestTypes &&
		verifStrsEq(b.permittedDomains, r.permittedDomains) &&
		verifStrsEq(b.restrictedDomains, r.restrictedDomains) &&
		verifStrsEq(b.denyAllowDomains, r.denyAllowDomains) &&
		verifStrsEq(b.permittedClientTags, r.permittedClientTags) &&
		verifStrsEq(b.restrictedClientTags, r.restrictedClientTags) &&
		verifRRsEq(b.permittedDNSTypes, r.permittedDNSTypes) &&
		verifRRsEq(b.restrictedDNSTypes, r.restrictedDNSTypes) &&
		verifClientsEq(b.permittedClients, r.permittedClients) &&
		verifClientsEq(b.restrictedClients, r.restrictedClients) &&
		verifRewriteEq(b.DNSRewrite, r.DNSRewrite)
}

func verifRealizeTwin(r *NetworkRule) *NetworkRule {
	if verifSymbolic() {
		return r
	}
	var extra []string
	if r.DNSRewrite != nil {
		extra = append(extra, "dnsrewrite="+r.DNSRewrite.NewCNAME)
	}
	return verifRealize(r, r.pattern, extra...)
}

// verifC08Lemma: negatesBadfilter(b, r) <=> twin(b, r), for a badfilter-free r.
func verifC08Lemma(maxList int) {
	b := verifTwinRule("b", maxList)
	r := verifTwinRule("r", maxList)
	verifAssume(r.enabledOptions&OptionBadfilter == 0)
	if verifKnown("D5") {
		verifAssume(verifRRsEq(b.permittedDNSTypes, r.permittedDNSTypes) && verifRRsEq(b.restrictedDNSTypes, r.restrictedDNSTypes))
		verifAssume(verifStrsEq(b.denyAllowDomains, r.denyAllowDomains))
		verifAssume(verifRewriteEq(b.DNSRewrite, r.DNSRewrite))
	}
	b = verifRealizeTwin(b)
	r = verifRealizeTwin(r)
	want := verifTwin(b, r)
	got := b.negatesBadfilter(r)
	if want {
		verifReach("c08.twin")
	} else {
		verifReach("c08.nottwin")
	}
	verifAssert(!got || want, "c08: a badfilter rule disables only rules identical to it apart from badfilter")
	verifAssert(!want || got, "c08: a badfilter rule disables its twin")
}

// verifSmallRule: a rule for list-level harnesses: flags, option word, pattern
// letter, one optional $domain, optional $dnsrewrite.
func verifSmallRule(p string) *NetworkRule {
	r := &NetworkRule{}
	r.Whitelist = verifBool(p + ".whitelist")
	r.enabledOptions = NetworkRuleOption(verifU64(p + ".enabled"))
	r.permittedRequestTypes = RequestType(verifU32(p + ".ptypes"))
	r.pattern = "||" + verifString(p+".pat", 1, "ab") + "^"
	r.RuleText = p
	r.permittedDomains = verifSymLen([]string{"pd0.com"}, p+".npd")
	verifAssume(verifInvOptions(r))
	verifAssume(verifRequestTypesOK(r))
	return r
}

func verifIn(r *NetworkRule, rs []*NetworkRule) bool {
	in := false
	for _, x := range rs {
		if x == r {
			in = true
		}
	}
	return in
}

// verifC08Filter: removeBadfilterRules returns exactly the non-badfilter rules without a twin.
// isBad is a bit mask that fixes which of the k rules carry $badfilter.
func verifC08Filter(k int, isBad int) {
	rs := make([]*NetworkRule, k)
	for i := range rs {
		r := verifSmallRule(vn("r", i, ""))
		if isBad&(1<<i) != 0 {
			verifAssume(r.enabledOptions&OptionBadfilter != 0)
		} else {
			verifAssume(r.enabledOptions&OptionBadfilter == 0)
		}
		rs[i] = verifRealize(r, r.pattern)
	}
	before := slices.Clone(rs)
	got := removeBadfilterRules(rs)
	nbad := 0
	for i := 0; i < k; i++ {
		if isBad&(1<<i) != 0 {
			nbad++
		}
	}
	if verifKnown("D4") {
		verifAssume(nbad <= 1)
	}
	for i, r := range rs {
		keep := r.enabledOptions&OptionBadfilter == 0
		for _, b := range rs {
			if verifTwin(b, r) {
				keep = false
				verifReach("c08.filter.twin")
			}
		}
		in := verifIn(r, got)
		verifAssert(!in || keep, "c08: badfilter rules and disabled rules are never returned")
		verifAssert(!keep || in, "c08: a rule without a twin stays effective")
		verifAssert(rs[i] == before[i], "c08: the caller's slice is not modified")
	}
	verifReach("c08.filter")
}

func verifC08Vacuity() {
	b := verifTwinRule("b", 1)
	r := verifTwinRule("r", 1)
	_ = b.negatesBadfilter(r)
	verifAssert(false, "vacuity")
}
