package rules

// C07 — rule priority is a strict weak order.
//
// Three rules whose every field read by IsHigherPriority is symbolic (full
// width option words and type masks, exception flag, symbolic list lengths).

func verifC07Rule(p string) *NetworkRule {
	r := verifSymRule(p, 2)
	verifAssume(verifRequestTypesOK(r))
	return verifRealize(r, "||example.org^")
}

// verifC07Excl excludes the regions of active known findings (none when D3 is fixed).
func verifC07Excl(a, b *NetworkRule) {
	if verifKnown("D3") {
		// asymmetric count ($client / $denyallow only counted on the receiver) and one-way generic test
		verifAssume(a.permittedClients.Len() == 0 && a.restrictedClients.Len() == 0 && len(a.denyAllowDomains) == 0)
		verifAssume(b.permittedClients.Len() == 0 && b.restrictedClients.Len() == 0 && len(b.denyAllowDomains) == 0)
		verifAssume(a.IsGeneric() == b.IsGeneric())
	}
}

func verifC07Pair() {
	a, b := verifC07Rule("a"), verifC07Rule("b")
	verifC07Excl(a, b)
	verifAssert(!a.IsHigherPriority(a), "c07: irreflexive")
	ab, ba := a.IsHigherPriority(b), b.IsHigherPriority(a)
	if ab {
		verifReach("c07.higher")
	}
	verifAssert(!(ab && ba), "c07: asymmetric")
	// documented criteria: verdict class first
	ca, cb := verifClass(a), verifClass(b)
	verifAssert(!(ca > cb) || ab, "c07: higher verdict class outranks")
	verifAssert(!(ca < cb) || !ab, "c07: lower verdict class never outranks")
	// then specific over generic
	if ca == cb && !a.IsGeneric() && b.IsGeneric() {
		verifReach("c07.specific")
		verifAssert(ab, "c07: within a class a $domain-specific rule outranks a generic one")
	}
}

// verifClass: 3 important exception, 2 important block, 1 exception, 0 block.
func verifClass(r *NetworkRule) int {
	imp := r.enabledOptions&OptionImportant != 0
	switch {
	case r.Whitelist && imp:
		return 3
	case imp:
		return 2
	case r.Whitelist:
		return 1
	}
	return 0
}

func verifC07Triple() {
	a, b, c := verifC07Rule("a"), verifC07Rule("b"), verifC07Rule("c")
	verifC07Excl(a, b)
	verifC07Excl(b, c)
	verifC07Excl(a, c)
	ab, ba := a.IsHigherPriority(b), b.IsHigherPriority(a)
	bc, cb := b.IsHigherPriority(c), c.IsHigherPriority(b)
	ac, ca := a.IsHigherPriority(c), c.IsHigherPriority(a)
	if ab && bc {
		verifReach("c07.chain")
	}
	verifAssert(!(ab && bc) || ac, "c07: transitive")
	if !ab && !ba && !bc && !cb {
		verifReach("c07.ties")
	}
	verifAssert(!(!ab && !ba && !bc && !cb) || (!ac && !ca), "c07: incomparability is transitive")
}

// verifC07AddModifier: adding one modifier (one more option bit) makes the rule strictly higher.
func verifC07AddModifier() {
	a := verifC07Rule("a")
	b := verifC07Rule("b")
	// b is a with exactly one more enabled option bit and otherwise equal fields read by the comparison
	bit := NetworkRuleOption(1) << (verifU8("bit") & 63)
	verifAssume(a.enabledOptions&bit == 0)
	verifAssume(b.enabledOptions == a.enabledOptions|bit)
	verifAssume(b.Whitelist == a.Whitelist && b.disabledOptions == a.disabledOptions)
	verifAssume(b.restrictedRequestTypes == a.restrictedRequestTypes)
	// document-level options replace the permitted types by "document": compare like with like
	verifAssume(b.permittedRequestTypes == a.permittedRequestTypes)
	verifAssume(len(a.permittedDomains) == len(b.permittedDomains) && len(a.restrictedDomains) == len(b.restrictedDomains))
	verifAssume(len(a.denyAllowDomains) == len(b.denyAllowDomains))
	verifAssume(len(a.permittedClientTags) == len(b.permittedClientTags) && len(a.restrictedClientTags) == len(b.restrictedClientTags))
	verifAssume(len(a.permittedDNSTypes) == len(b.permittedDNSTypes) && len(a.restrictedDNSTypes) == len(b.restrictedDNSTypes))
	verifAssume(a.permittedClients.Len() == b.permittedClients.Len() && a.restrictedClients.Len() == b.restrictedClients.Len())
	verifReach("c07.addmod")
	verifAssert(b.IsHigherPriority(a), "c07: adding a modifier makes the rule strictly higher")
	verifAssert(!a.IsHigherPriority(b), "c07: the original never outranks the rule with one more modifier")
}

// verifC07AddList: a list going from empty to non-empty makes the rule strictly higher.
func verifC07AddList() {
	a := verifC07Rule("a")
	b := verifC07Rule("b")
	verifC07Excl(a, b)
	verifAssume(b.Whitelist == a.Whitelist && b.enabledOptions == a.enabledOptions && b.disabledOptions == a.disabledOptions)
	verifAssume(b.permittedRequestTypes == a.permittedRequestTypes && b.restrictedRequestTypes == a.restrictedRequestTypes)
	// which list grows: 0 domain(permitted) 1 domain(restricted) 2 denyallow 3 ctag 4 dnstype 5 client
	which := verifChoice("which", 6)
	da := []int{len(a.permittedDomains), len(a.restrictedDomains), len(a.denyAllowDomains),
		len(a.permittedClientTags) + len(a.restrictedClientTags), len(a.permittedDNSTypes) + len(a.restrictedDNSTypes),
		a.permittedClients.Len() + a.restrictedClients.Len()}
	db := []int{len(b.permittedDomains), len(b.restrictedDomains), len(b.denyAllowDomains),
		len(b.permittedClientTags) + len(b.restrictedClientTags), len(b.permittedDNSTypes) + len(b.restrictedDNSTypes),
		b.permittedClients.Len() + b.restrictedClients.Len()}
	for i := 0; i < 6; i++ {
		if i == which {
			verifAssume(da[i] == 0 && db[i] > 0)
		} else {
			verifAssume((da[i] == 0) == (db[i] == 0))
		}
	}
	// the $domain modifier is one modifier: both lists count once
	if which == 0 {
		verifAssume(len(a.restrictedDomains) == 0)
	}
	if which == 1 {
		verifAssume(len(a.permittedDomains) == 0)
	}
	verifReach("c07.addlist")
	verifAssert(b.IsHigherPriority(a), "c07: adding a value-list modifier makes the rule strictly higher")
	verifAssert(!a.IsHigherPriority(b), "c07: the original never outranks the rule with one more value-list modifier")
}

func verifC07Vacuity() {
	a, b := verifC07Rule("a"), verifC07Rule("b")
	_ = a.IsHigherPriority(b)
	verifAssert(false, "vacuity")
}
