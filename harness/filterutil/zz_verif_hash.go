package filterutil

// verifHashSummary replaces FastHashBetween in the table harnesses: an
// uninterpreted function of the window bytes (per window length).  Any two
// different windows may collide, which is the adversary the properties
// quantify over; equal windows always hash equally.
func verifHashSummary(str string, begin, end int) uint32 {
	return uint32(verifUFStr("H", str[begin:end]))
}

// verifUFStr is intercepted by the executor.  Natively the real hash is used.
func verifUFStr(name string, s string) uint64 {
	return uint64(FastHashBetween(s, 0, len(s)))
}

// verifHashLemma: the abstraction is justified if the real FastHashBetween is a
// function of the window bytes only and FastHash(s) == FastHashBetween(s, 0, len(s)) for non-empty s.
func verifHashLemma(n, pre, post int) {
	w := verifString("w", n, "ab:/zq.")
	s1 := verifString("p1", pre, "ab") + w + verifString("q1", post, "ab")
	s2 := verifString("p2", pre+1, "ab") + w
	h1 := FastHashBetween(s1, pre, pre+n)
	h2 := FastHashBetween(s2, pre+1, pre+1+n)
	verifReach("hash.lemma")
	verifAssert(h1 == h2, "hash: FastHashBetween depends on the window bytes only")
	if n > 0 {
		verifAssert(FastHash(w) == FastHashBetween(w, 0, n), "hash: FastHash(s) == FastHashBetween(s, 0, len(s))")
	} else {
		verifAssert(FastHash(w) == 0, "hash: FastHash of the empty string is 0")
	}
}

// verifHashLemmaBytes: the two entry points agree on arbitrary bytes, not only on
// ASCII (the tables add with FastHash and look up with FastHashBetween).  Non-ASCII
// strings are concrete here: the executor does not decode symbolic UTF-8.
func verifHashLemmaBytes() {
	for _, s := range []string{"\xc3\xa9", "\xd1\x80\xd0\xb5\xd0\xba", "a\xffb", "\x80", "ab\xe2\x82\xac", "\xf0\x9f\x98\x80x"} {
		verifAssert(FastHash(s) == FastHashBetween(s, 0, len(s)), "hash: FastHash(s) == FastHashBetween(s, 0, len(s)) on non-ASCII bytes")
		t := "zz" + s
		verifAssert(FastHashBetween(t, 2, len(t)) == FastHashBetween(s, 0, len(s)), "hash: FastHashBetween depends on the window bytes only (non-ASCII)")
	}
	verifReach("hash.lemma.bytes")
}
