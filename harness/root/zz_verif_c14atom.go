package urlfilter

import (
	"github.com/AdguardTeam/golibs/syncutil"
	"github.com/AdguardTeam/urlfilter/filterlist"
	"github.com/AdguardTeam/urlfilter/rules"
)

// the pool never hands one object to two holders at once
func verifPoolGetFresh(p *syncutil.Pool[rules.Request]) *rules.Request { return &rules.Request{} }

func verifPoolPutNop(p *syncutil.Pool[rules.Request], r *rules.Request) {}

const verifC14Rules = "||zq^\n127.0.0.1 qz\n@@||zz^$important\n||zz^\n::1 qz\n/q+z/\n"

func verifC14Storage(kind int) *filterlist.RuleStorage {
	var l filterlist.RuleList
	if kind == 0 {
		l = &filterlist.StringRuleList{ID: 1, RulesText: verifC14Rules}
	} else {
		l = filterlist.VerifFileList(verifC14Rules, 8)
	}
	s, err := filterlist.NewRuleStorage([]filterlist.RuleList{l})
	if err != nil {
		panic(err)
	}
	return s
}

func verifRuleText(r rules.Rule) string {
	switch x := r.(type) {
	case *rules.NetworkRule:
		if x == nil {
			return ""
		}
		return x.RuleText
	case *rules.HostRule:
		if x == nil {
			return ""
		}
		return x.RuleText
	}
	return ""
}

func verifSameDNS(a *DNSResult, am bool, b *DNSResult, bm bool) bool {
	if am != bm || (a.NetworkRule == nil) != (b.NetworkRule == nil) {
		return false
	}
	if a.NetworkRule != nil && a.NetworkRule.RuleText != b.NetworkRule.RuleText {
		return false
	}
	if len(a.NetworkRules) != len(b.NetworkRules) || len(a.HostRulesV4) != len(b.HostRulesV4) || len(a.HostRulesV6) != len(b.HostRulesV6) {
		return false
	}
	for i := range a.NetworkRules {
		if a.NetworkRules[i].RuleText != b.NetworkRules[i].RuleText {
			return false
		}
	}
	for i := range a.HostRulesV4 {
		if a.HostRulesV4[i].RuleText != b.HostRulesV4[i].RuleText {
			return false
		}
	}
	for i := range a.HostRulesV6 {
		if a.HostRulesV6[i].RuleText != b.HostRulesV6[i].RuleText {
			return false
		}
	}
	return true
}

// verifC14AtomDNS: two DNSEngine.MatchRequest calls on one engine over a real
// storage (kind 0: in-memory list, 1: file-backed list), cold caches.
func verifC14AtomDNS(kind int) {
	hosts := []string{"zq", "qz", "zz", "qqz"}
	ha := hosts[verifChoice("a", 4)]
	hb := hosts[verifChoice("b", 4)]
	ref := NewDNSEngine(verifC14Storage(kind))
	wa, wam := ref.MatchRequest(&DNSRequest{Hostname: ha})
	wb, wbm := ref.MatchRequest(&DNSRequest{Hostname: hb})
	e := NewDNSEngine(verifC14Storage(kind))
	if !verifSymbolic() {
		ok := verifStress(5000, func() bool {
			r, m := e.MatchRequest(&DNSRequest{Hostname: ha})
			return verifSameDNS(r, m, wa, wam)
		}, func() bool {
			r, m := e.MatchRequest(&DNSRequest{Hostname: hb})
			return verifSameDNS(r, m, wb, wbm)
		})
		verifAssert(ok, "c14: a query interleaved with another query returns its sequential answer")
		return
	}
	var rb *DNSResult
	rbm, ran := false, false
	verifYieldAt = verifU8("yieldAt")
	verifOther = func() {
		rb, rbm = e.MatchRequest(&DNSRequest{Hostname: hb})
		ran = true
	}
	ra, ram := e.MatchRequest(&DNSRequest{Hostname: ha})
	verifOther = nil
	verifReach("c14.atom.dns")
	verifAssert(verifSameDNS(ra, ram, wa, wam), "c14: a query interleaved with another query returns its sequential answer")
	if ran {
		verifReach("c14.atom.interleaved")
		verifAssert(verifSameDNS(rb, rbm, wb, wbm), "c14: the interleaving query returns its sequential answer")
	}
}

// verifC14AtomNet: two NetworkEngine.Match calls (tables, storage cache, lazy compilation).
func verifC14AtomNet(kind int) {
	urls := []string{"http://zq/", "http://zz/", "http://qqz/a", "http://x/"}
	ua := urls[verifChoice("a", 4)]
	ub := urls[verifChoice("b", 4)]
	reqA := rules.NewRequest(ua, "", rules.TypeOther)
	reqB := rules.NewRequest(ub, "", rules.TypeOther)
	ref := NewNetworkEngine(verifC14Storage(kind))
	wa, wao := ref.Match(reqA)
	wb, wbo := ref.Match(reqB)
	e := NewNetworkEngine(verifC14Storage(kind))
	same := func(r *rules.NetworkRule, ok bool, w *rules.NetworkRule, wok bool) bool {
		return ok == wok && verifRuleText(r) == verifRuleText(w)
	}
	if !verifSymbolic() {
		ok := verifStress(5000, func() bool {
			r, m := e.Match(reqA)
			return same(r, m, wa, wao)
		}, func() bool {
			r, m := e.Match(reqB)
			return same(r, m, wb, wbo)
		})
		verifAssert(ok, "c14: a query interleaved with another query returns its sequential answer")
		return
	}
	var rb *rules.NetworkRule
	rbo, ran := false, false
	verifYieldAt = verifU8("yieldAt")
	verifOther = func() {
		rb, rbo = e.Match(reqB)
		ran = true
	}
	ra, rao := e.Match(reqA)
	verifOther = nil
	verifReach("c14.atom.net")
	verifAssert(same(ra, rao, wa, wao), "c14: a query interleaved with another query returns its sequential answer")
	if ran {
		verifReach("c14.atom.interleaved")
		verifAssert(same(rb, rbo, wb, wbo), "c14: the interleaving query returns its sequential answer")
	}
}
