package urlfilter

import (
	"strings"

	"github.com/AdguardTeam/urlfilter/filterlist"
	"github.com/AdguardTeam/urlfilter/rules"
)

// C06 — wiring of the verdict into Engine.MatchRequest and NetworkEngine.Match.
// MatchAll is replaced: it returns the harness list for the request itself and the
// source list for the derived referrer request.

var verifMainReq *rules.Request
var verifMainRules, verifSrcRules []*rules.NetworkRule

func verifMatchAllStub(n *NetworkEngine, r *rules.Request) []*rules.NetworkRule {
	if r == verifMainReq {
		return verifMainRules
	}
	return verifSrcRules
}

func verifC06Wiring(k, s, withSource int) {
	verifMainRules = make([]*rules.NetworkRule, k)
	for i := range verifMainRules {
		verifMainRules[i] = rules.VerifC06Rule(vn("r", i, ""))
	}
	verifSrcRules = make([]*rules.NetworkRule, s)
	for i := range verifSrcRules {
		verifSrcRules[i] = rules.VerifC06Rule(vn("s", i, ""))
	}
	// the wiring is about which lists reach the verdict, not about matching: the rules carry
	// nothing that depends on the request besides their pattern (the verdict over all rules: verifC06Web)
	for _, r := range verifMainRules {
		verifAssume(rules.VerifAlwaysApplies(r))
	}
	for _, r := range verifSrcRules {
		verifAssume(rules.VerifAlwaysApplies(r))
	}
	if !verifSymbolic() {
		// native replay: a real engine over rules with the same fields whose patterns select the request / the referrer
		var texts []string
		for _, r := range verifMainRules {
			texts = append(texts, rules.VerifTextWithPattern(r, "||a.com/x"))
		}
		for _, r := range verifSrcRules {
			texts = append(texts, rules.VerifTextWithPattern(r, "|http://zq.com/|"))
		}
		l := &filterlist.StringRuleList{ID: 1, RulesText: strings.Join(texts, "\n")}
		st, err := filterlist.NewRuleStorage([]filterlist.RuleList{l})
		if err != nil {
			panic(err)
		}
		en := NewEngine(st)
		srcURL := ""
		src := verifSrcRules
		if withSource == 1 {
			srcURL = "http://zq.com/"
		} else {
			src = nil
		}
		nreq := rules.NewRequest("http://a.com/x", srcURL, rules.TypeOther)
		verifNote("rules: " + strings.Join(texts, " ; "))
		verifAssert(rules.VerifVerdict(en.MatchRequest(nreq).GetBasicResult()) == rules.VerifRefClass(verifMainRules, src), "c06: Engine.MatchRequest yields the documented verdict class (referrer rules only when there is a source)")
		rule, ok := en.networkEngine.Match(nreq)
		verifAssert(ok == (rule != nil), "c06: NetworkEngine.Match reports ok iff it returns a rule")
		verifAssert(rules.VerifVerdict(rule) == rules.VerifRefClass(verifMainRules, nil), "c06: NetworkEngine.Match yields the documented verdict class of the request rules")
		return
	}
	req := &rules.Request{URL: "http://a.com/x", URLLowerCase: "http://a.com/x", Hostname: "a.com"}
	if withSource == 1 {
		req.SourceURL = "http://zq.com/"
	}
	verifMainReq = req
	e := &Engine{networkEngine: &NetworkEngine{}}
	res := e.MatchRequest(req)
	src := verifSrcRules
	if withSource == 0 {
		src = nil
	}
	verifReach("c06.wiring")
	verifAssert(rules.VerifVerdict(res.GetBasicResult()) == rules.VerifRefClass(verifMainRules, src), "c06: Engine.MatchRequest yields the documented verdict class (referrer rules only when there is a source)")
	rule, ok := e.networkEngine.Match(req)
	verifAssert(ok == (rule != nil), "c06: NetworkEngine.Match reports ok iff it returns a rule")
	verifAssert(rules.VerifVerdict(rule) == rules.VerifRefClass(verifMainRules, nil), "c06: NetworkEngine.Match yields the documented verdict class of the request rules")
}
