package urlfilter

import (
	"github.com/AdguardTeam/urlfilter/rules"
)

// C06 — wiring of the verdict into Engine.MatchRequest and NetworkEngine.Match.
// MatchAll is replaced: it returns the harness list for the request itself and the
// source list for the derived referrer request.

var verifMainReq *rules.Request
var verifMainRules, verifSrcRules []*rules.NetworkRule

func verifMatchAllStub(n *NetworkEngine, r *rules.Request) []*rules.NetworkRule {
	if r == verifMainReq {
		return verifMainRules
	}
	return verifSrcRules
}

func verifC06Wiring(k, s, withSource int) {
	verifMainRules = make([]*rules.NetworkRule, k)
	for i := range verifMainRules {
		verifMainRules[i] = rules.VerifC06Rule(vn("r", i, ""))
	}
	verifSrcRules = make([]*rules.NetworkRule, s)
	for i := range verifSrcRules {
		verifSrcRules[i] = rules.VerifC06Rule(vn("s", i, ""))
	}
	req := &rules.Request{URL: "http://a.com/x", URLLowerCase: "http://a.com/x", Hostname: "a.com"}
	if withSource == 1 {
		req.SourceURL = "http://zq.com/"
	}
	verifMainReq = req
	e := &Engine{networkEngine: &NetworkEngine{}}
	res := e.MatchRequest(req)
	src := verifSrcRules
	if withSource == 0 {
		src = nil
	}
	verifReach("c06.wiring")
	verifAssert(rules.VerifVerdict(res.GetBasicResult()) == rules.VerifRefClass(verifMainRules, src), "c06: Engine.MatchRequest yields the documented verdict class (referrer rules only when there is a source)")
	rule, ok := e.networkEngine.Match(req)
	verifAssert(ok == (rule != nil), "c06: NetworkEngine.Match reports ok iff it returns a rule")
	verifAssert(rules.VerifVerdict(rule) == rules.VerifRefClass(verifMainRules, nil), "c06: NetworkEngine.Match yields the documented verdict class of the request rules")
}
