package urlfilter

import (
	"github.com/AdguardTeam/urlfilter/rules"
)

// C09 — effective DNS rewrites apply every matching exception, in any order.

func verifImportant(r *rules.NetworkRule) bool { return r.IsOptionEnabled(rules.OptionImportant) }

// verifDisables: the statement of the property, per (exception, rewrite) pair.
func verifDisables(exc, nr *rules.NetworkRule) bool {
	if !verifImportant(exc) && verifImportant(nr) {
		return false
	}
	e, n := exc.DNSRewrite, nr.DNSRewrite
	if e.NewCNAME == "" && e.RCode == 0 && e.RRType == 0 && e.Value == nil {
		return true // exception with an empty value
	}
	if e.NewCNAME != "" {
		return n.NewCNAME == e.NewCNAME
	}
	if n.RCode != e.RCode {
		return false
	}
	if e.RCode != 0 {
		return true
	}
	return n.RRType == e.RRType && rules.VerifRRValueEq(n.Value, e.Value)
}

func verifRefRewrites(rs []*rules.NetworkRule) []*rules.NetworkRule {
	var out []*rules.NetworkRule
	for _, nr := range rs {
		if nr.DNSRewrite == nil || nr.Whitelist {
			continue
		}
		disabled := false
		for _, exc := range rs {
			if exc.DNSRewrite != nil && exc.Whitelist && verifDisables(exc, nr) {
				disabled = true
			}
		}
		if !disabled {
			out = append(out, nr)
		}
	}
	return out
}

func verifSameSeq(a, b []*rules.NetworkRule) bool {
	if len(a) != len(b) {
		return false
	}
	same := true
	for i := range a {
		if a[i] != b[i] {
			same = false
		}
	}
	return same
}

func verifC09(k int, nkinds int) {
	rs := make([]*rules.NetworkRule, k)
	nexc := 0
	for i := range rs {
		rs[i] = rules.VerifRewriteRule(vn("r", i, ""), nkinds)
		if rs[i].Whitelist {
			nexc++
		}
	}
	if verifKnown("D6") {
		// two exceptions next to each other after an in-place delete
		for i := 0; i+1 < k; i++ {
			verifAssume(!(rs[i].Whitelist && rs[i+1].Whitelist))
		}
	}
	if verifKnown("D7") {
		for i := range rs {
			if _, ok := rs[i].DNSRewrite.Value.(*rules.DNSMX); ok {
				verifAssume(!rs[i].Whitelist)
			}
		}
	}
	res := &DNSResult{NetworkRules: rs}
	before := append([]*rules.NetworkRule(nil), rs...)
	got := res.DNSRewrites()
	want := verifRefRewrites(before)
	if nexc > 0 && len(want) > 0 {
		verifReach("c09.mixed")
	}
	if nexc >= 2 {
		verifReach("c09.two-exceptions")
	}
	for _, g := range got {
		verifAssert(!g.Whitelist, "c09: exception rules are never returned")
	}
	verifAssert(verifSameSeq(got, want), "c09: effective rewrites == rewrites not disabled by any matching exception, in order")
	verifAssert(verifSameSeq(res.NetworkRules, before), "c09: the result's rule list is not modified")
}

func verifC09Vacuity() {
	rs := []*rules.NetworkRule{rules.VerifRewriteRule("r0", 3), rules.VerifRewriteRule("r1", 3)}
	res := &DNSResult{NetworkRules: rs}
	_ = res.DNSRewrites()
	verifAssert(false, "vacuity")
}
