package urlfilter

import (
	"encoding/json"
	"os"
	"strings"

	"github.com/AdguardTeam/urlfilter/filterlist"
	"github.com/AdguardTeam/urlfilter/rules"
)

// C15 — the cosmetic engine returns exactly the applicable, non-excepted selectors.

var verifCosmeticLists [][]string

// verifCosmeticList returns the rule texts of list i (driver-provided; natively from VERIF_LISTS).
func verifCosmeticList(i int) []string {
	if verifCosmeticLists == nil {
		b, err := os.ReadFile(os.Getenv("VERIF_LISTS"))
		if err != nil {
			panic(err)
		}
		if err = json.Unmarshal(b, &verifCosmeticLists); err != nil {
			panic(err)
		}
	}
	return verifCosmeticLists[i]
}

// verifNativeCosmetic parses (natively) rule j of list i; intercepted by the executor, which imports the parsed object.
func verifNativeCosmetic(i, j int) *rules.CosmeticRule {
	r, err := rules.NewCosmeticRule(verifCosmeticList(i)[j], 1)
	if err != nil {
		panic(verifSkip{"cosmetic rule rejected: " + verifCosmeticList(i)[j]})
	}
	return r
}

func verifNativeCosmeticCount(i int) int { return len(verifCosmeticList(i)) }

func verifStrIn(s string, xs []string) bool {
	in := false
	for _, x := range xs {
		if x == s {
			in = true
		}
	}
	return in
}

var verifC15Tails = []string{"", ".com", ".co.uk"}

func verifC15(list, hostLen, tail int) {
	// hostLen >= 100: the engine has answered another query (symbolic hostname and flags) before (C13)
	warm := false
	if hostLen >= 100 {
		hostLen -= 100
		warm = true
	}
	n := verifNativeCosmeticCount(list)
	rs := make([]*rules.CosmeticRule, n)
	verifScanRules, verifScanIdx = nil, nil
	for j := 0; j < n; j++ {
		rs[j] = verifNativeCosmetic(list, j)
		verifScanRules = append(verifScanRules, rs[j])
		verifScanIdx = append(verifScanIdx, int64(1)<<32|int64(7*j))
	}
	host := verifString("host", hostLen, "zq.")
	if hostLen > 0 {
		verifAssume(host[0] != '.' && host[hostLen-1] != '.')
	}
	for i := 0; i+1 < hostLen; i++ {
		verifAssume(!(host[i] == '.' && host[i+1] == '.'))
	}
	host += verifC15Tails[tail]
	css, js, generic := verifBool("css"), verifBool("js"), verifBool("generic")

	var ce *CosmeticEngine
	if verifSymbolic() {
		ce = NewCosmeticEngine(&filterlist.RuleStorage{})
	} else {
		l := &filterlist.StringRuleList{ID: 1, RulesText: strings.Join(verifCosmeticList(list), "\n")}
		storage, err := filterlist.NewRuleStorage([]filterlist.RuleList{l})
		if err != nil {
			panic(err)
		}
		ce = NewCosmeticEngine(storage)
	}
	if warm {
		h0 := verifString("host0", 2, "zq.") + verifC15Tails[tail]
		prev := ce.Match(h0, verifBool("css0"), verifBool("js0"), verifBool("generic0"))
		// the caller may do what it likes with an earlier result
		if len(prev.ElementHiding.Generic) > 0 {
			prev.ElementHiding.Generic[0] = "overwritten"
		}
		if len(prev.ElementHiding.Specific) > 0 {
			prev.ElementHiding.Specific[0] = "overwritten"
		}
		verifReach("c15.warm")
	}
	res := ce.Match(host, css, js, generic)

	if verifKnown("D10") {
		// domain-restricted rules are only found under the exact hostname key
		for _, r := range rs {
			for _, d := range r.GetPermittedDomains() {
				verifAssume(host == d || !r.Match(host))
			}
		}
	}
	for _, r := range rs {
		if r.Whitelist {
			continue
		}
		applies := r.Match(host)
		for _, e := range rs {
			if e.Whitelist && e.Content == r.Content && e.Match(host) {
				applies = false
				verifReach("c15.excepted")
			}
		}
		wantGeneric := css && generic && applies && r.IsGeneric()
		wantSpecific := css && applies && !r.IsGeneric()
		// another rule with the same selector may contribute it too
		for _, o := range rs {
			if o != r && !o.Whitelist && o.Content == r.Content {
				oa := o.Match(host)
				for _, e := range rs {
					if e.Whitelist && e.Content == o.Content && e.Match(host) {
						oa = false
					}
				}
				if css && generic && oa && o.IsGeneric() {
					wantGeneric = true
				}
				if css && oa && !o.IsGeneric() {
					wantSpecific = true
				}
			}
		}
		if wantGeneric || wantSpecific {
			verifReach("c15.applies")
		}
		verifAssert(verifStrIn(r.Content, res.ElementHiding.Generic) == wantGeneric, "c15: generic selectors == applicable non-excepted generic rules (when CSS and generic CSS are enabled)")
		verifAssert(verifStrIn(r.Content, res.ElementHiding.Specific) == wantSpecific, "c15: specific selectors == applicable non-excepted domain rules (when CSS is enabled)")
	}
	for _, s := range res.ElementHiding.Generic {
		found := false
		for _, r := range rs {
			if !r.Whitelist && r.Content == s {
				found = true
			}
		}
		verifAssert(found, "c15: every returned selector belongs to a rule")
	}
	verifAssert(len(res.ElementHiding.GenericExtCSS) == 0 && len(res.ElementHiding.SpecificExtCSS) == 0 && len(res.CSS.Generic) == 0 && len(res.JS.Generic) == 0, "c15: nothing else is returned")

	// the three booleans are exactly the three option bits (C16)
	opt := rules.CosmeticOption(verifU32("option"))
	e := &Engine{cosmeticEngine: ce}
	viaOption := e.GetCosmeticResult(host, opt)
	direct := ce.Match(host, opt&rules.CosmeticOptionCSS != 0, opt&rules.CosmeticOptionJS != 0, opt&rules.CosmeticOptionGenericCSS != 0)
	verifAssert(verifSameStrings(viaOption.ElementHiding.Generic, direct.ElementHiding.Generic) && verifSameStrings(viaOption.ElementHiding.Specific, direct.ElementHiding.Specific), "c16: GetCosmeticResult passes exactly the three option bits")
}

func verifSameStrings(a, b []string) bool {
	if len(a) != len(b) {
		return false
	}
	same := true
	for i := range a {
		if a[i] != b[i] {
			same = false
		}
	}
	return same
}

func verifC15Vacuity() {
	verifScanRules = []rules.Rule{verifNativeCosmetic(0, 0)}
	verifScanIdx = []int64{5}
	ce := NewCosmeticEngine(&filterlist.RuleStorage{})
	_ = ce.Match(verifString("host", 2, "zq"), true, true, true)
	verifAssert(false, "vacuity")
}
