package urlfilter

import (
	"strings"

	"github.com/AdguardTeam/urlfilter/filterlist"
	"github.com/AdguardTeam/urlfilter/rules"
)

// C13 — results are a pure function of the lists and the request (engine parts).

// verifC13Pool: whatever the pooled object contained, the request handed to the
// engines equals a freshly allocated one.
func verifC13Pool(hostLen int) {
	var d *DNSEngine
	if verifSymbolic() {
		d = &DNSEngine{} // the pool is replaced: Get hands out an object with arbitrary contents
	} else {
		// native replay: a real engine whose pool holds the object of the model
		s, err := filterlist.NewRuleStorage(nil)
		if err != nil {
			panic(err)
		}
		d = NewDNSEngine(s)
		d.pool.Put(rules.VerifGarbageRequest("pooled"))
	}
	q := &DNSRequest{
		Hostname:         verifString("host", hostLen, "zq."),
		ClientName:       verifString("q.client", 1, "ab"),
		DNSType:          verifU16("q.dnstype"),
		SortedClientTags: []string{verifString("q.tag", 1, "ab")},
	}
	got := d.getRequestFromPool(q)
	fresh := &rules.Request{}
	fresh.SortedClientTags, fresh.ClientIP, fresh.ClientName, fresh.DNSType = q.SortedClientTags, q.ClientIP, q.ClientName, q.DNSType
	rules.FillRequestForHostname(fresh, q.Hostname)
	verifReach("c13.pool")
	verifAssert(rules.VerifRequestEqual(got, fresh), "c13: no field of the pooled request leaks into the next query")
}

func verifSameRules(a, b []*rules.NetworkRule) bool {
	if len(a) != len(b) {
		return false
	}
	same := true
	for i := range a {
		if a[i] != b[i] {
			same = false
		}
	}
	return same
}

// verifC13Repeat: a network engine answers a request the same before and after another query,
// and the slice returned earlier is not modified by later queries.
func verifC13Repeat(n, shape, urlLen int) {
	rs := make([]*rules.NetworkRule, n)
	engine := NewNetworkEngineSkipStorageScan(&filterlist.RuleStorage{})
	verifRegRules, verifRegIdx = nil, nil
	for i := 0; i < n; i++ {
		sl := (shape >> (8 * i)) & 0xf
		nd := (shape >> (8*i + 4)) & 0xf
		rs[i] = rules.VerifTableRule(vn("rule", i, ""), sl, nd, 4)
		idx := int64(i%2+1)<<32 | int64(5+4*i)
		verifRegRules = append(verifRegRules, rs[i])
		verifRegIdx = append(verifRegIdx, idx)
		engine.AddRule(rs[i], idx)
	}
	u1 := verifString("url1", urlLen, "ab:/")
	u2 := verifString("url2", urlLen, "ab:/")
	q1 := &rules.Request{URL: u1, URLLowerCase: u1}
	q2 := &rules.Request{URL: u2, URLLowerCase: u2, SourceHostname: "zq.com"}
	a := engine.MatchAll(q1)
	keep := append([]*rules.NetworkRule(nil), a...)
	_ = engine.MatchAll(q2)
	b := engine.MatchAll(q1)
	verifReach("c13.repeat")
	verifAssert(verifSameRules(a, b), "c13: the answer to a request does not depend on earlier queries")
	verifAssert(verifSameRules(a, keep), "c13: a result returned earlier is not modified by later queries")
	verifAssert(engine.RulesCount == n || n > 1, "c13: queries do not change the engine")
}

// verifC13Rewrites: the getters of a DNS result are pure: asking twice gives the
// same answer, and asking for the effective rewrites does not change what
// DNSRewritesAll reports.
func verifC13Rewrites(k int, nkinds int) {
	rs := make([]*rules.NetworkRule, k)
	for i := range rs {
		rs[i] = rules.VerifRewriteRule(vn("r", i, ""), nkinds)
	}
	res := &DNSResult{NetworkRules: rs}
	all1 := append([]*rules.NetworkRule(nil), res.DNSRewritesAll()...)
	eff1 := append([]*rules.NetworkRule(nil), res.DNSRewrites()...)
	all2 := res.DNSRewritesAll()
	eff2 := res.DNSRewrites()
	verifReach("c13.rewrites")
	verifAssert(verifSameSeq(all1, all2), "c13: DNSRewritesAll is the same before and after DNSRewrites")
	verifAssert(verifSameSeq(eff1, eff2), "c13: DNSRewrites called twice gives the same answer")
}

// ---- Engine.MatchRequest after another request (C13): the verdict of the second
// request is the one of a fresh engine.  MatchAll is replaced: request rules by
// identity of the request, referrer rules by the last byte of the referrer URL.

var verifMainReq2 *rules.Request
var verifMainRules2, verifSrcRules2 []*rules.NetworkRule

func verifMatchAllHist(n *NetworkEngine, r *rules.Request) []*rules.NetworkRule {
	if r == verifMainReq {
		return verifMainRules
	}
	if r == verifMainReq2 {
		return verifMainRules2
	}
	if len(r.URL) > 0 && r.URL[len(r.URL)-1] == 'a' {
		return verifSrcRules
	}
	return verifSrcRules2
}

func verifC13Engine(k, s int) {
	mk := func(p string, n int) []*rules.NetworkRule {
		out := make([]*rules.NetworkRule, n)
		for i := range out {
			out[i] = rules.VerifPlainRule(vn(p, i, ""))
		}
		return out
	}
	// the first request has no rules of its own and a referrer (path "a") with one concrete
	// document-level exception; the second has symbolic rules and a referrer with path "b"
	doc, err := rules.NewNetworkRule("@@||zq.com^$urlblock", 1)
	if err != nil {
		panic(err)
	}
	verifMainRules, verifMainRules2 = nil, mk("t", k)
	verifSrcRules, verifSrcRules2 = []*rules.NetworkRule{doc}, mk("u", s)
	src2 := []string{"http://zq.com/b", "http://qz.com/b", "http://q.zq.com/b"}[verifChoice("src2", 3)]
	req1 := &rules.Request{URL: "http://a.com/x", URLLowerCase: "http://a.com/x", Hostname: "a.com", SourceURL: "http://zq.com/a"}
	req2 := &rules.Request{URL: "http://a.com/y", URLLowerCase: "http://a.com/y", Hostname: "a.com", SourceURL: src2}
	for _, r := range verifMainRules2 {
		verifAssume(rules.VerifAlwaysApplies(r))
	}
	for _, r := range verifSrcRules2 {
		verifAssume(rules.VerifAlwaysApplies(r))
	}
	if !verifSymbolic() {
		// native replay: a real engine over rules with the same fields whose patterns select the same requests
		texts := []string{"@@||zq.com/a$urlblock"}
		for _, r := range verifMainRules2 {
			texts = append(texts, rules.VerifTextWithPattern(r, "||a.com/y"))
		}
		for _, r := range verifSrcRules2 {
			texts = append(texts, rules.VerifTextWithPattern(r, "|"+src2+"|"))
		}
		mkEngine := func() *Engine {
			l := &filterlist.StringRuleList{ID: 1, RulesText: strings.Join(texts, "\n")}
			st, err := filterlist.NewRuleStorage([]filterlist.RuleList{l})
			if err != nil {
				panic(err)
			}
			return NewEngine(st)
		}
		r1 := rules.NewRequest("http://a.com/x", "http://zq.com/a", rules.TypeOther)
		r2 := rules.NewRequest("http://a.com/y", src2, rules.TypeOther)
		en := mkEngine()
		_ = en.MatchRequest(r1)
		got := en.MatchRequest(r2)
		want := mkEngine().MatchRequest(r2)
		verifNote("rules: " + strings.Join(texts, " ; "))
		verifAssert(rules.VerifVerdict(got.GetBasicResult()) == rules.VerifVerdict(want.GetBasicResult()), "c13: Engine.MatchRequest answers the second request as a fresh engine would")
		return
	}
	verifMainReq, verifMainReq2 = req1, req2
	e := &Engine{networkEngine: &NetworkEngine{}}
	_ = e.MatchRequest(req1)
	res := e.MatchRequest(req2)
	verifReach("c13.engine")
	verifAssert(rules.VerifVerdict(res.GetBasicResult()) == rules.VerifRefClass(verifMainRules2, verifSrcRules2), "c13: Engine.MatchRequest answers the second request as a fresh engine would")
}
