package urlfilter

import (
	"strings"

	"github.com/AdguardTeam/urlfilter/filterlist"
	"github.com/AdguardTeam/urlfilter/rules"
)

// C01 — network engine lookup is equivalent to a linear scan of all rules.

var verifRegRules []*rules.NetworkRule
var verifRegIdx []int64
var verifFaulty bool
var verifFaultCalls int

// verifRetrieveNetworkRule replaces RuleStorage.RetrieveNetworkRule: the storage
// is perfect (C11/C13 cover it), the index is symbolic.
func verifRetrieveNetworkRule(s *filterlist.RuleStorage, idx int64) *rules.NetworkRule {
	if verifFaulty {
		// C19: any retrieval may fail (list closed, read error): the storage then yields nil
		verifFaultCalls++
		if verifBool(vn("fault", verifFaultCalls, "")) {
			verifMarkFailed(verifRegIdx, idx)
			return nil
		}
	}
	for i := range verifRegIdx {
		if verifRegIdx[i] == idx {
			return verifRegRules[i]
		}
	}
	return nil
}

var verifC01Tails = []string{"", ".com", ".co.uk"}

func verifRuleIn(r *rules.NetworkRule, rs []*rules.NetworkRule) bool {
	in := false
	for _, x := range rs {
		if x == r {
			in = true
		}
	}
	return in
}

// verifC01: n rules; shape holds two hex digits per rule (shortcut length, number of
// $domain values); domLen is the length of each $domain value; the request has a URL of
// urlLen symbolic bytes and a source host of srcLen symbolic bytes plus tail.
func verifC01(n, shape, domLen, urlLen, srcLen, srcTail int) {
	// domLen >= 100 selects the alphabet of URL-like shortcuts ("http", "ws:", ... see isAnyURLShortcut)
	rules.VerifTableAlphabet = "ab:/"
	if domLen >= 200 {
		// real-hash jobs: an alphabet in which the real djb2 has collisions on 5-byte windows ("aaac/" and "aac/a")
		domLen -= 200
		rules.VerifTableAlphabet = "ac/"
	} else if domLen >= 100 {
		domLen -= 100
		rules.VerifTableAlphabet = "htps:/w"
	}
	u := verifString("url", urlLen, rules.VerifTableAlphabet)
	src := ""
	if srcLen >= 0 {
		src = verifString("src", srcLen, "zq.")
		if srcLen > 0 {
			verifAssume(src[0] != '.' && src[srcLen-1] != '.')
		}
		for i := 0; i+1 < srcLen; i++ {
			verifAssume(!(src[i] == '.' && src[i+1] == '.'))
		}
		src += verifC01Tails[srcTail]
	}
	req := &rules.Request{URL: u, URLLowerCase: u, SourceHostname: src}
	if src != "" {
		req.SourceDomain = rules.VerifSourceDomain(src) // as NewRequest fills it
	}
	rs := make([]*rules.NetworkRule, n)
	for i := 0; i < n; i++ {
		sl := (shape >> (8 * i)) & 0xf
		nd := (shape >> (8*i + 4)) & 0xf
		dl := domLen
		if domLen >= 10 {
			// two digits: the first rule's $domain values have the length of the tens digit, the others that of the units
			dl = domLen % 10
			if i == 0 {
				dl = domLen / 10
			}
		}
		rs[i] = rules.VerifTableRule(vn("rule", i, ""), sl, nd, dl)
	}
	if verifKnown("D9") {
		for _, r := range rs {
			for _, d := range r.GetPermittedDomains() {
				verifAssume(!strings.HasSuffix(d, ".*"))
			}
		}
	}
	var got []*rules.NetworkRule
	if verifSymbolic() {
		engine := NewNetworkEngineSkipStorageScan(&filterlist.RuleStorage{})
		verifRegRules, verifRegIdx = nil, nil
		for i, r := range rs {
			// distinct storage indexes (list id 1 / 2, offsets 5, 9, ...): their packing is C11's subject
			idx := int64(i%2+1)<<32 | int64(5+4*i)
			verifRegRules = append(verifRegRules, r)
			verifRegIdx = append(verifRegIdx, idx)
			engine.AddRule(r, idx)
		}
		got = engine.MatchAll(req)
		for _, g := range got {
			verifAssert(verifRuleIn(g, rs), "c01: only rules of the lists are returned")
		}
		for _, r := range rs {
			m := r.Match(req)
			in := verifRuleIn(r, got)
			if m {
				verifReach("c01.match")
			}
			verifAssert(!in || m, "c01: the engine never returns a rule that does not match")
			verifAssert(!m || in, "c01: the engine never loses a matching rule")
		}
		return
	}
	// native replay: real storage, real engine, rules from their texts
	texts := rules.VerifRealised()
	texts = texts[len(texts)-n:]
	list := &filterlist.StringRuleList{ID: 1, RulesText: strings.Join(texts, "\n")}
	storage, err := filterlist.NewRuleStorage([]filterlist.RuleList{list})
	if err != nil {
		panic(err)
	}
	engine := NewNetworkEngine(storage)
	got = engine.MatchAll(req)
	for i, r := range rs {
		m := r.Match(req)
		in := false
		for _, g := range got {
			if g.RuleText == texts[i] {
				in = true
			}
		}
		verifAssert(!in || m, "c01: the engine never returns a rule that does not match")
		verifAssert(!m || in, "c01: the engine never loses a matching rule")
	}
}

func verifC01Vacuity() {
	req := &rules.Request{URL: "ab:/a", URLLowerCase: "ab:/a"}
	engine := NewNetworkEngineSkipStorageScan(&filterlist.RuleStorage{})
	r := rules.VerifTableRule("rule0", 5, 0, 0)
	verifRegRules, verifRegIdx = []*rules.NetworkRule{r}, []int64{7}
	engine.AddRule(r, 7)
	_ = engine.MatchAll(req)
	verifAssert(false, "vacuity")
}

// verifC19Tables: like verifC01, but every retrieval from the storage may fail
// independently.  Results degrade to a subset: whatever is returned matches, and
// rules held in memory (sequential table) are still served.
func verifC19Tables(n, shape, domLen, urlLen, srcLen, srcTail int) {
	u := verifString("url", urlLen, "ab:/")
	src := ""
	if srcLen >= 0 {
		src = verifString("src", srcLen, "zq.")
		if srcLen > 0 {
			verifAssume(src[0] != '.' && src[srcLen-1] != '.')
		}
		for i := 0; i+1 < srcLen; i++ {
			verifAssume(!(src[i] == '.' && src[i+1] == '.'))
		}
		src += verifC01Tails[srcTail]
	}
	req := &rules.Request{URL: u, URLLowerCase: u, SourceHostname: src}
	if src != "" {
		req.SourceDomain = rules.VerifSourceDomain(src) // as NewRequest fills it
	}
	rs := make([]*rules.NetworkRule, n)
	inMemory := make([]bool, n)
	for i := 0; i < n; i++ {
		sl := (shape >> (8 * i)) & 0xf
		nd := (shape >> (8*i + 4)) & 0xf
		rs[i] = rules.VerifTableRule(vn("rule", i, ""), sl, nd, domLen)
		inMemory[i] = sl < 5 && nd == 0
	}
	engine := NewNetworkEngineSkipStorageScan(&filterlist.RuleStorage{})
	verifRegRules, verifRegIdx = nil, nil
	for i, r := range rs {
		idx := int64(i%2+1)<<32 | int64(5+4*i)
		verifRegRules = append(verifRegRules, r)
		verifRegIdx = append(verifRegIdx, idx)
		engine.AddRule(r, idx)
	}
	verifFaulty, verifFaultCalls = true, 0
	verifFailed = [8]bool{}
	got := engine.MatchAll(req)
	verifFaulty = false
	for i, r := range rs {
		if !verifFailed[i] && r.Match(req) {
			verifAssert(verifRuleIn(r, got), "c19: a rule that can still be retrieved is served whatever happens to the others")
		}
	}
	if verifFaultCalls > 0 {
		verifReach("c19.retrieval")
	}
	for _, g := range got {
		verifAssert(verifRuleIn(g, rs), "c19: only rules of the lists are returned")
		verifAssert(g.Match(req), "c19: every returned rule truly matches the request")
	}
	for i, r := range rs {
		if inMemory[i] && r.Match(req) {
			verifReach("c19.inmemory")
			verifAssert(verifRuleIn(r, got), "c19: rules already held in memory are still served")
		}
	}
}

// verifRetrieveNetworkRuleAny serves the registry of the table harnesses or of the DNS harness.
func verifRetrieveNetworkRuleAny(s *filterlist.RuleStorage, idx int64) *rules.NetworkRule {
	if len(verifRegIdx) > 0 {
		return verifRetrieveNetworkRule(s, idx)
	}
	return verifRetrieveNetworkRuleDNS(s, idx)
}
