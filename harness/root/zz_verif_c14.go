package urlfilter

import (
	"github.com/AdguardTeam/golibs/syncutil"
	"github.com/AdguardTeam/urlfilter/filterlist"
	"github.com/AdguardTeam/urlfilter/rules"
)

var verifPooled *rules.Request

// the pool hands the same object to whoever asks next: holding it is exclusive from Get to Put
func verifPoolGetShared(p *syncutil.Pool[rules.Request]) *rules.Request {
	verifAcquire(verifPooled)
	return verifPooled
}

func verifPoolPutShared(p *syncutil.Pool[rules.Request], r *rules.Request) {
	verifRelease(r)
}

// verifAcquire / verifRelease are intercepted by the executor (pseudo-mutex events).
func verifAcquire(r *rules.Request) {}
func verifRelease(r *rules.Request) {}

// verifC14DNS: DNSEngine.MatchRequest with the pooled request object.
func verifC14DNS() {
	h := &rules.HostRule{RuleText: "127.0.0.1 zq", FilterListID: 1, Hostnames: []string{"zq"}}
	verifScanRules = []rules.Rule{h}
	verifScanIdx = []int64{1<<32 | 5}
	engine := NewDNSEngine(&filterlist.RuleStorage{})
	verifPooled = &rules.Request{}
	verifShared()
	host := []string{"zq", "qz"}[verifChoice("op", 2)]
	_, _ = engine.MatchRequest(&DNSRequest{Hostname: host})
	verifReach("c14.dns")
}
