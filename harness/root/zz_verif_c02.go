package urlfilter

import (
	"net/netip"
	"strings"

	"github.com/AdguardTeam/golibs/syncutil"
	"github.com/AdguardTeam/urlfilter/filterlist"
	"github.com/AdguardTeam/urlfilter/rules"
)

// C02 — the DNS engine's answer equals the reference resolution over all rules.

var verifScanRules []rules.Rule
var verifScanIdx []int64
var verifScanPos int

// stubs for the storage scanner (the storage is perfect: C11)
func verifNewScanner(s *filterlist.RuleStorage) *filterlist.RuleStorageScanner {
	verifScanPos = -1
	return &filterlist.RuleStorageScanner{}
}

func verifScan(s *filterlist.RuleStorageScanner) bool {
	verifScanPos++
	return verifScanPos < len(verifScanRules)
}

func verifScanRule(s *filterlist.RuleStorageScanner) (rules.Rule, int64) {
	return verifScanRules[verifScanPos], verifScanIdx[verifScanPos]
}

// verifFailed[i]: some retrieval of the i-th registered rule failed during the query
var verifFailed [8]bool

func verifMarkFailed(idxs []int64, idx int64) {
	for i := range idxs {
		if idxs[i] == idx && i < len(verifFailed) {
			verifFailed[i] = true
		}
	}
}

func verifRetrieveHostRule(s *filterlist.RuleStorage, idx int64) *rules.HostRule {
	if verifFaulty {
		verifFaultCalls++
		if verifBool(vn("fault", verifFaultCalls, "")) {
			verifMarkFailed(verifScanIdx, idx)
			return nil
		}
	}
	for i := range verifScanIdx {
		if verifScanIdx[i] == idx {
			h, _ := verifScanRules[i].(*rules.HostRule)
			return h
		}
	}
	return nil
}

func verifRetrieveNetworkRuleDNS(s *filterlist.RuleStorage, idx int64) *rules.NetworkRule {
	if verifFaulty {
		verifFaultCalls++
		if verifBool(vn("fault", verifFaultCalls, "")) {
			verifMarkFailed(verifScanIdx, idx)
			return nil
		}
	}
	for i := range verifScanIdx {
		if verifScanIdx[i] == idx {
			n, _ := verifScanRules[i].(*rules.NetworkRule)
			return n
		}
	}
	return nil
}

// the pool hands out a request object with arbitrary contents (C13)
func verifPoolGet(p *syncutil.Pool[rules.Request]) *rules.Request {
	return rules.VerifGarbageRequest("pooled")
}

func verifPoolPut(p *syncutil.Pool[rules.Request], r *rules.Request) {}

func verifHostIn(h *rules.HostRule, hs []*rules.HostRule) bool {
	in := false
	for _, x := range hs {
		if x == h {
			in = true
		}
	}
	return in
}

// verifC02: nh hosts-file rules (1..2 names each) and nn network rules with
// literal patterns of patLen bytes; a DNS request for a hostname of hostLen bytes.
func verifC02(nh, nn, patLen, hostLen int) {
	// hostLen >= 100: the real hash function runs (no summary); names over an alphabet in
	// which the real djb2 has collisions at this length ("08"/"2z", "0q"/"23")
	hostAlpha := "zq"
	rules.VerifHostAlphabet, rules.VerifHostNameLen = "zq", 2
	if hostLen >= 100 {
		hostLen -= 100
		hostAlpha = "zq0238"
		rules.VerifHostAlphabet, rules.VerifHostNameLen = hostAlpha, hostLen
	}
	var hostRules []*rules.HostRule
	var netRules []*rules.NetworkRule
	verifScanRules, verifScanIdx = nil, nil
	for i := 0; i < nh; i++ {
		h := rules.VerifHostRule(vn("h", i, ""), 1+i%2)
		hostRules = append(hostRules, h)
		verifScanRules = append(verifScanRules, h)
		verifScanIdx = append(verifScanIdx, int64(1)<<32|int64(10*i))
	}
	for i := 0; i < nn; i++ {
		n := rules.VerifDNSNetRule(vn("n", i, ""), patLen, i == 0) // the first network rule may carry $client
		netRules = append(netRules, n)
		verifScanRules = append(verifScanRules, n)
		verifScanIdx = append(verifScanIdx, int64(2)<<32|int64(10*i+3))
	}
	host := verifString("host", hostLen, hostAlpha)
	dreq := &DNSRequest{Hostname: host, DNSType: verifU16("q.dnstype"), ClientName: verifString("q.client", verifChoice("q.clientLen", 2), "ab")}

	if verifBool("q.hasip") {
		dreq.ClientIP = netip.AddrFrom4([4]byte{9, 9, 9, verifU8("q.ip")})
	}

	var engine *DNSEngine
	if verifSymbolic() {
		engine = NewDNSEngine(&filterlist.RuleStorage{})
	} else {
		texts := rules.VerifRealised()
		list := &filterlist.StringRuleList{ID: 1, RulesText: strings.Join(texts, "\n")}
		storage, err := filterlist.NewRuleStorage([]filterlist.RuleList{list})
		if err != nil {
			panic(err)
		}
		engine = NewDNSEngine(storage)
		// the pool holds the recycled object of the model (in symbolic mode the pool stub hands it out)
		engine.pool.Put(rules.VerifGarbageRequest("pooled"))
	}
	res, matched := engine.MatchRequest(dreq)

	// ---- reference: scan every rule
	fresh := &rules.Request{}
	fresh.DNSType = dreq.DNSType
	fresh.ClientName = dreq.ClientName
	fresh.ClientIP = dreq.ClientIP
	rules.FillRequestForHostname(fresh, host)
	var wantNet []*rules.NetworkRule
	for _, n := range netRules {
		if rules.VerifHostLevel(n) && n.Match(fresh) {
			wantNet = append(wantNet, n)
		}
	}
	// on a copy: the reference list must not be touched by the function under test
	basic := rules.GetDNSBasicRule(append([]*rules.NetworkRule(nil), wantNet...))
	if verifSymbolic() {
		for _, n := range netRules {
			in := verifRuleIn(n, res.NetworkRules)
			want := verifRuleIn(n, wantNet)
			verifAssert(in == want, "c02: NetworkRules are exactly the DNS-applicable network rules that match the hostname")
		}
	} else {
		// natively the engine holds its own parsed copies: compare by rule text
		for _, n := range netRules {
			in := false
			for _, g := range res.NetworkRules {
				if g.RuleText == n.RuleText {
					in = true
				}
			}
			verifAssert(in == verifRuleIn(n, wantNet), "c02: NetworkRules are exactly the DNS-applicable network rules that match the hostname")
		}
	}
	verifAssert(rules.VerifClass(res.NetworkRule) == rules.VerifClass(basic), "c02: the basic rule has the reference class")
	if basic != nil {
		verifReach("c02.basic")
		verifAssert(matched, "c02: matched is true when a basic rule was found")
		verifAssert(len(res.HostRulesV4) == 0 && len(res.HostRulesV6) == 0, "c02: host rules are not consulted when a basic rule exists")
		return
	}
	any := false
	for i, h := range hostRules {
		names := h.Match(host)
		v4 := h.IP.Is4()
		if verifSymbolic() {
			in4 := verifHostIn(h, res.HostRulesV4)
			in6 := verifHostIn(h, res.HostRulesV6)
			verifAssert(in4 == (names && v4), "c02: IPv4 host rules naming the hostname are returned under HostRulesV4")
			verifAssert(in6 == (names && !v4), "c02: IPv6 host rules naming the hostname are returned under HostRulesV6")
		}
		if names {
			any = true
			verifReach("c02.host")
		}
		_ = i
	}
	if !verifSymbolic() {
		n4, n6 := 0, 0
		for _, h := range hostRules {
			if h.Match(host) {
				if h.IP.Is4() {
					n4++
				} else {
					n6++
				}
			}
		}
		verifAssert(len(res.HostRulesV4) == n4 && len(res.HostRulesV6) == n6, "c02: host rules naming the hostname are returned, split by family")
	}
	verifAssert(matched == any, "c02: matched iff a basic rule or a host entry was found")
}

// verifC02HostLevel: IsHostLevelNetworkRule == the documented predicate, for all option words and masks.
func verifC02HostLevel() {
	r := rules.VerifDNSNetRule("r", 2, false)
	verifReach("c02.hostlevel")
	verifAssert(r.IsHostLevelNetworkRule() == rules.VerifHostLevel(r), "c02: IsHostLevelNetworkRule == documented predicate")
}

func verifC02Vacuity() {
	verifScanRules = []rules.Rule{rules.VerifHostRule("h0", 1)}
	verifScanIdx = []int64{5}
	engine := NewDNSEngine(&filterlist.RuleStorage{})
	_, _ = engine.MatchRequest(&DNSRequest{Hostname: verifString("host", 2, "zq")})
	verifAssert(false, "vacuity")
}

// verifC19DNS: a DNS query while any retrieval from the storage may fail: no crash, and every
// rule in the answer truly applies to the hostname.
func verifC19DNS(nh, nn, patLen int) {
	verifScanRules, verifScanIdx = nil, nil
	for i := 0; i < nh; i++ {
		verifScanRules = append(verifScanRules, rules.VerifHostRule(vn("h", i, ""), 1+i%2))
		verifScanIdx = append(verifScanIdx, int64(1)<<32|int64(10*i))
	}
	for i := 0; i < nn; i++ {
		verifScanRules = append(verifScanRules, rules.VerifDNSNetRule(vn("n", i, ""), patLen, false))
		verifScanIdx = append(verifScanIdx, int64(2)<<32|int64(10*i+3))
	}
	host := verifString("host", 2, "zq")
	engine := NewDNSEngine(&filterlist.RuleStorage{})
	verifFaulty, verifFaultCalls = true, 0
	verifFailed = [8]bool{}
	res, matched := engine.MatchRequest(&DNSRequest{Hostname: host})
	verifFaulty = false
	fresh := rules.NewRequestForHostname(host)
	// a rule whose every retrieval succeeded (it can be read, or it is in memory) is served
	// whatever happens to the other rules
	for i, r := range verifScanRules {
		if verifFailed[i] {
			continue
		}
		switch x := r.(type) {
		case *rules.NetworkRule:
			if x.IsHostLevelNetworkRule() && x.Match(fresh) {
				verifReach("c19.dns.served")
				verifAssert(verifRuleIn(x, res.NetworkRules), "c19: a rule that can still be retrieved is served whatever happens to the others")
			}
		case *rules.HostRule:
			if res.NetworkRule == nil && x.Match(host) {
				verifReach("c19.dns.served")
				verifAssert(verifHostIn(x, res.HostRulesV4) || verifHostIn(x, res.HostRulesV6), "c19: a rule that can still be retrieved is served whatever happens to the others")
			}
		}
	}
	for _, n := range res.NetworkRules {
		verifAssert(n.Match(fresh), "c19: every network rule in a degraded DNS answer matches the hostname")
	}
	for _, h := range res.HostRulesV4 {
		verifAssert(h.Match(host) && h.IP.Is4(), "c19: every IPv4 host rule in a degraded DNS answer names the hostname")
	}
	for _, h := range res.HostRulesV6 {
		verifAssert(h.Match(host) && !h.IP.Is4(), "c19: every IPv6 host rule in a degraded DNS answer names the hostname")
	}
	if verifFaultCalls > 0 {
		verifReach("c19.dns")
	}
	verifAssert(matched == (res.NetworkRule != nil || len(res.HostRulesV4)+len(res.HostRulesV6) > 0), "c19: matched reflects what is in the degraded answer")
}
