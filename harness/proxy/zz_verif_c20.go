package proxy

import (
	"io"
	"net/http"
)

// C20 — proxy HTML injection: the injection point is the first head marker inside the inspected prefix.

func verifMarkers() []string { return []string{"</head", "<link", "<style", "<script"} }

func verifFoldEq(c, m byte) bool {
	if c == m {
		return true
	}
	if m >= 'a' && m <= 'z' {
		return c == m-32
	}
	return false
}

// verifMarkerAt: one of the markers starts at i (ASCII case-insensitive).
func verifMarkerAt(body string, i int) bool {
	found := false
	for _, m := range verifMarkers() {
		if i+len(m) <= len(body) {
			all := true
			for j := 0; j < len(m); j++ {
				if !verifFoldEq(body[i+j], m[j]) {
					all = false
				}
			}
			if all {
				found = true
			}
		}
	}
	return found
}

// verifC20Index: for every body of n symbolic bytes the injection index is the
// least in-window position where a marker starts, or -1.
func verifC20Index(n int, alpha int) {
	alphabets := []string{"</hHeEaAdDx", "<lLiInNkKsStTyYx", "<sScCrRiIpPtTx/"}
	verifC20IndexBody(verifString("body", n, alphabets[alpha]), n)
}

// verifC20IndexAny: the same for a body of n arbitrary 7-bit bytes (control characters
// included): only the markers themselves, in either letter case, are markers.
func verifC20IndexAny(n int) {
	b := make([]byte, n)
	for i := range b {
		b[i] = verifU8(vn("body", i, ""))
		verifAssume(b[i] < 0x80)
	}
	verifC20IndexBody(string(b), n)
}

func verifC20IndexBody(body string, n int) {
	got := findBodyInjectionIndex(body)
	want := -1
	for i := n - 1; i >= 0; i-- {
		if i < headBufferSize && verifMarkerAt(body, i) {
			want = i
		}
	}
	if want >= 0 {
		verifReach("c20.found")
	} else {
		verifReach("c20.none")
	}
	verifAssert(got == want, "c20: the injection index is the first marker inside the inspected prefix, else -1")
	if got >= 0 {
		// what filterHTML does with the index: one tag spliced in, every original byte kept in order
		tag := "<T>"
		out := body[:got] + tag + body[got:]
		verifAssert(len(out) == n+len(tag) && out[:got] == body[:got] && out[got+len(tag):] == body[got:], "c20: the splice keeps every original byte in order")
	}
}

// verifC20Window: a marker that starts at or beyond the 16 KiB window is not used;
// one that starts inside it is, even if it ends beyond.
func verifC20Window(k int) {
	// 16384-k filler bytes, then 9 symbolic bytes around the boundary
	fill := make([]byte, headBufferSize-k)
	for i := range fill {
		fill[i] = 'x'
	}
	tail := verifString("tail", 9, "</hHeadx")
	body := string(fill) + tail
	got := findBodyInjectionIndex(body)
	want := -1
	for i := len(body) - 1; i >= len(fill); i-- {
		if i < headBufferSize && verifMarkerAt(body, i) {
			want = i
		}
	}
	verifReach("c20.window")
	verifAssert(got == want, "c20: only markers starting inside the 16 KiB window count")
}

func verifC20Vacuity() {
	_ = findBodyInjectionIndex(verifString("body", 7, "</head"))
	verifAssert(false, "vacuity")
}

// ---------------------------------------------------------------------------
// filterHTML with its environment stubbed: decompression and the Latin-1 round
// trip are identities on ASCII bodies (their contracts), the content-script
// template yields a fixed tag.

type verifBody struct{ closed bool }

func (b *verifBody) Read(p []byte) (int, error) { return 0, io.EOF }
func (b *verifBody) Close() error               { b.closed = true; return nil }

var verifBodyBytes []byte

func verifReadDecompressedBody(res *http.Response) ([]byte, error) { return verifBodyBytes, nil }

// Latin-1 contract: decoding maps byte b to the rune U+00bb (one UTF-8 byte below 0x80, two
// bytes C2/C3 xx otherwise); encoding is its inverse.
func verifDecodeLatin1(r io.Reader) (string, error) {
	out := make([]byte, 0, 2*len(verifBodyBytes))
	for _, b := range verifBodyBytes {
		if b < 0x80 {
			out = append(out, b)
		} else {
			out = append(out, 0xC0|b>>6, 0x80|b&0x3F)
		}
	}
	return string(out), nil
}

func verifEncodeLatin1(s string) ([]byte, error) {
	out := make([]byte, 0, len(s))
	for i := 0; i < len(s); i++ {
		c := s[i]
		if c < 0x80 {
			out = append(out, c)
			continue
		}
		if (c == 0xC2 || c == 0xC3) && i+1 < len(s) && s[i+1]&0xC0 == 0x80 {
			out = append(out, (c&0x03)<<6|s[i+1]&0x3F)
			i++
			continue
		}
		return nil, io.ErrUnexpectedEOF // not representable in Latin-1
	}
	return out, nil
}
func verifBuildInjection(s *Server, session *Session) string       { return "<T>" }

func verifC20Filter(n int, alpha int) {
	// every alphabet contains two bytes >= 0x80 (0xE9 and 0x80): "every original byte of any charset"
	alphabets := []string{"</hHeEaAdDx\xe9\x80", "<lLiInNkKsStTyYx\xe9\x80", "<sScCrRiIpPtTx/\xe9\x80"}
	body := verifString("body", n, alphabets[alpha])
	verifBodyBytes = []byte(body)
	orig := &verifBody{}
	res := &http.Response{Header: http.Header{"Content-Encoding": {"gzip"}, "Content-Security-Policy": {"x"}, "Content-Type": {"text/html"}}, Body: orig, ContentLength: -1}
	session := &Session{HTTPResponse: res, ID: "1"}
	srv := &Server{}
	err := srv.filterHTML(session)
	verifAssert(err == nil, "c20: filtering succeeds")
	if err != nil {
		return
	}
	out, rerr := io.ReadAll(res.Body)
	verifAssert(rerr == nil, "c20: the new body is readable")
	// the first marker in the ORIGINAL bytes (the window of 16 KiB is not reached by these bodies)
	idx := -1
	for i := n - 1; i >= 0; i-- {
		if verifMarkerAt(body, i) {
			idx = i
		}
	}
	want := body
	if idx >= 0 {
		verifReach("c20.injected")
		want = body[:idx] + "<T>" + body[idx:]
	} else {
		verifReach("c20.unchanged")
	}
	verifAssert(string(out) == want, "c20: output == body with exactly one tag before the first in-window marker, else the body unchanged")
	verifAssert(res.ContentLength == int64(len(out)), "c20: the declared length is the new body length")
	_, hasEnc := res.Header["Content-Encoding"]
	verifAssert(!hasEnc, "c20: Content-Encoding is removed")
}
