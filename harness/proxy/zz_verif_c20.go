package proxy

// C20 — proxy HTML injection: the injection point is the first head marker inside the inspected prefix.

func verifMarkers() []string { return []string{"</head", "<link", "<style", "<script"} }

func verifFoldEq(c, m byte) bool {
	if c == m {
		return true
	}
	if m >= 'a' && m <= 'z' {
		return c == m-32
	}
	return false
}

// verifMarkerAt: one of the markers starts at i (ASCII case-insensitive).
func verifMarkerAt(body string, i int) bool {
	found := false
	for _, m := range verifMarkers() {
		if i+len(m) <= len(body) {
			all := true
			for j := 0; j < len(m); j++ {
				if !verifFoldEq(body[i+j], m[j]) {
					all = false
				}
			}
			if all {
				found = true
			}
		}
	}
	return found
}

// verifC20Index: for every body of n symbolic bytes the injection index is the
// least in-window position where a marker starts, or -1.
func verifC20Index(n int, alpha int) {
	alphabets := []string{"</hHeEaAdDx", "<lLiInNkKsStTyYx", "<sScCrRiIpPtTx/"}
	body := verifString("body", n, alphabets[alpha])
	got := findBodyInjectionIndex(body)
	want := -1
	for i := n - 1; i >= 0; i-- {
		if i < headBufferSize && verifMarkerAt(body, i) {
			want = i
		}
	}
	if want >= 0 {
		verifReach("c20.found")
	} else {
		verifReach("c20.none")
	}
	verifAssert(got == want, "c20: the injection index is the first marker inside the inspected prefix, else -1")
	if got >= 0 {
		// what filterHTML does with the index: one tag spliced in, every original byte kept in order
		tag := "<T>"
		out := body[:got] + tag + body[got:]
		verifAssert(len(out) == n+len(tag) && out[:got] == body[:got] && out[got+len(tag):] == body[got:], "c20: the splice keeps every original byte in order")
	}
}

// verifC20Window: a marker that starts at or beyond the 16 KiB window is not used;
// one that starts inside it is, even if it ends beyond.
func verifC20Window(k int) {
	// 16384-k filler bytes, then 9 symbolic bytes around the boundary
	fill := make([]byte, headBufferSize-k)
	for i := range fill {
		fill[i] = 'x'
	}
	tail := verifString("tail", 9, "</hHeadx")
	body := string(fill) + tail
	got := findBodyInjectionIndex(body)
	want := -1
	for i := len(body) - 1; i >= len(fill); i-- {
		if i < headBufferSize && verifMarkerAt(body, i) {
			want = i
		}
	}
	verifReach("c20.window")
	verifAssert(got == want, "c20: only markers starting inside the 16 KiB window count")
}

func verifC20Vacuity() {
	_ = findBodyInjectionIndex(verifString("body", 7, "</head"))
	verifAssert(false, "vacuity")
}
