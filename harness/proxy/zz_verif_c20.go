package proxy

import (
	"io"
	"net/http"
)

// C20 — proxy HTML injection: the injection point is the first head marker inside the inspected prefix.

func verifMarkers() []string { return []string{"</head", "<link", "<style", "<script"} }

func verifFoldEq(c, m byte) bool {
	if c == m {
		return true
	}
	if m >= 'a' && m <= 'z' {
		return c == m-32
	}
	return false
}

// verifMarkerAt: one of the markers starts at i (ASCII case-insensitive).
func verifMarkerAt(body string, i int) bool {
	found := false
	for _, m := range verifMarkers() {
		if i+len(m) <= len(body) {
			all := true
			for j := 0; j < len(m); j++ {
				if !verifFoldEq(body[i+j], m[j]) {
					all = false
				}
			}
			if all {
				found = true
			}
		}
	}
	return found
}

// verifC20Index: for every body of n symbolic bytes the injection index is the
// least in-window position where a marker starts, or -1.
func verifC20Index(n int, alpha int) {
	alphabets := []string{"</hHeEaAdDx", "<lLiInNkKsStTyYx", "<sScCrRiIpPtTx/"}
	body := verifString("body", n, alphabets[alpha])
	got := findBodyInjectionIndex(body)
	want := -1
	for i := n - 1; i >= 0; i-- {
		if i < headBufferSize && verifMarkerAt(body, i) {
			want = i
		}
	}
	if want >= 0 {
		verifReach("c20.found")
	} else {
		verifReach("c20.none")
	}
	verifAssert(got == want, "c20: the injection index is the first marker inside the inspected prefix, else -1")
	if got >= 0 {
		// what filterHTML does with the index: one tag spliced in, every original byte kept in order
		tag := "<T>"
		out := body[:got] + tag + body[got:]
		verifAssert(len(out) == n+len(tag) && out[:got] == body[:got] && out[got+len(tag):] == body[got:], "c20: the splice keeps every original byte in order")
	}
}

// verifC20Window: a marker that starts at or beyond the 16 KiB window is not used;
// one that starts inside it is, even if it ends beyond.
func verifC20Window(k int) {
	// 16384-k filler bytes, then 9 symbolic bytes around the boundary
	fill := make([]byte, headBufferSize-k)
	for i := range fill {
		fill[i] = 'x'
	}
	tail := verifString("tail", 9, "</hHeadx")
	body := string(fill) + tail
	got := findBodyInjectionIndex(body)
	want := -1
	for i := len(body) - 1; i >= len(fill); i-- {
		if i < headBufferSize && verifMarkerAt(body, i) {
			want = i
		}
	}
	verifReach("c20.window")
	verifAssert(got == want, "c20: only markers starting inside the 16 KiB window count")
}

func verifC20Vacuity() {
	_ = findBodyInjectionIndex(verifString("body", 7, "</head"))
	verifAssert(false, "vacuity")
}

// ---------------------------------------------------------------------------
// filterHTML with its environment stubbed: decompression and the Latin-1 round
// trip are identities on ASCII bodies (their contracts), the content-script
// template yields a fixed tag.

type verifBody struct{ closed bool }

func (b *verifBody) Read(p []byte) (int, error) { return 0, io.EOF }
func (b *verifBody) Close() error               { b.closed = true; return nil }

var verifBodyBytes []byte

func verifReadDecompressedBody(res *http.Response) ([]byte, error) { return verifBodyBytes, nil }
func verifDecodeLatin1(r io.Reader) (string, error)                { return string(verifBodyBytes), nil }
func verifEncodeLatin1(s string) ([]byte, error)                   { return []byte(s), nil }
func verifBuildInjection(s *Server, session *Session) string       { return "<T>" }

func verifC20Filter(n int, alpha int) {
	alphabets := []string{"</hHeEaAdDx", "<lLiInNkKsStTyYx", "<sScCrRiIpPtTx/"}
	body := verifString("body", n, alphabets[alpha])
	verifBodyBytes = []byte(body)
	orig := &verifBody{}
	res := &http.Response{Header: http.Header{"Content-Encoding": {"gzip"}, "Content-Security-Policy": {"x"}, "Content-Type": {"text/html"}}, Body: orig, ContentLength: -1}
	session := &Session{HTTPResponse: res, ID: "1"}
	srv := &Server{}
	err := srv.filterHTML(session)
	verifAssert(err == nil, "c20: filtering succeeds")
	if err != nil {
		return
	}
	out, rerr := io.ReadAll(res.Body)
	verifAssert(rerr == nil, "c20: the new body is readable")
	idx := -1
	for i := n - 1; i >= 0; i-- {
		if i < headBufferSize && verifMarkerAt(body, i) {
			idx = i
		}
	}
	want := body
	if idx >= 0 {
		verifReach("c20.injected")
		want = body[:idx] + "<T>" + body[idx:]
	} else {
		verifReach("c20.unchanged")
	}
	verifAssert(string(out) == want, "c20: output == body with exactly one tag before the first in-window marker, else the body unchanged")
	verifAssert(res.ContentLength == int64(len(out)), "c20: the declared length is the new body length")
	_, hasEnc := res.Header["Content-Encoding"]
	verifAssert(!hasEnc, "c20: Content-Encoding is removed")
	verifAssert(orig.closed, "c20: the original body is closed")
	_, hasType := res.Header["Content-Type"]
	verifAssert(hasType, "c20: other headers are kept")
}
