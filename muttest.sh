#!/bin/sh
# usage: muttest.sh <check-id> <file> <sed-expression>   -- applies a one-line mutation in a scratch worktree and runs one check on it
id=$1; file=$2; expr=$3
wt=/tmp/mut_$$
git -C /repo worktree add -q --detach $wt HEAD || exit 2
sed -i "$expr" $wt/$file
if git -C $wt diff --quiet; then echo "MUTATION DID NOT APPLY"; git -C /repo worktree remove --force $wt; exit 2; fi
( cd $wt && GOFLAGS=-mod=mod GOPROXY=off go build ./... 2>&1 | head -3 )
suite=$( cd $wt && GOFLAGS=-mod=mod GOPROXY=off go test -vet=off -count=1 ./... 2>&1 | grep -c "^FAIL" )
out=$(cd /verif && VERIF_REPO=$wt timeout 2000 ./check $id quick 2>&1)
rc=$?
echo "mutant [$file: $expr] suite_failures=$suite check=$id exit=$rc violations=$(echo "$out" | grep -c '^VIOLATION') $(echo "$out" | grep 'assertion:' | head -1 | cut -c1-160)"
git -C /repo worktree remove --force $wt
