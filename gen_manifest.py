#!/usr/bin/env python3
"""Regenerates MANIFEST.json from the table below (kept in one place so that it stays valid)."""
import json

CHECKS = {
 "C07": ("three rules with every field read by IsHigherPriority symbolic (64-bit option words, 32-bit type masks, exception flags, list lengths 0..1, client sets nil or not): irreflexive, asymmetric, transitive, transitive ties, class order, specific over generic, adding a modifier raises priority",
         "InvRule; go/ssa lowering; engine; z3"),
 "C08": ("twin lemma over two fully symbolic rules (all compared fields incl. list contents: value lists of length 0..2, $domain/$denyallow in any order with duplicates, $ctag/$client sorted with duplicates) and removeBadfilterRules over k<=3/4 symbolic rules for every $badfilter subset: result == non-badfilter rules without a twin, caller slice untouched",
         "InvRule; list entries one symbolic letter; go/ssa lowering; engine; z3"),
 "C09": ("DNSResult.DNSRewrites over sequences of 0..3 (thorough 0..4) rewrite rules with symbolic exception/important flags and payloads of six kinds (pairs/triples over eleven kinds incl. record types without a value), against the order-independent reference filter; result list untouched",
         "rules built field by field, re-parsed from text on replay; netip globals imported from the native process; engine; z3"),
 "C06": ("NewMatchingResult+GetBasicResult (k<=2/3 request and s<=2 referrer rules) and GetDNSBasicRule (k<=3/4) over arbitrary symbolic rules against the order-free documented precedence; selected rule never outranked (C07); verdict unchanged by adding a rule with its badfilter twin at any positions (C08)",
         "InvRule; Engine.MatchRequest / NetworkEngine.Match are executed with MatchAll returning the harness lists (replayed natively on a real engine over rules with the same fields); engine; z3"),
 "C18": ("NewRule on hosts-file lines: address from a menu of 5 literals, 1..2 (thorough 1..3) names of symbolic bytes, symbolic blank/tab separators, comments attached or after blanks with symbolic bytes, trailing blanks, bare domains; Hostnames/IP/list id exact and Match(q) iff q listed for symbolic q; through the DNS engine the rule is reported under its address family iff the name is listed, also with the real hash function on names where it collides",
         "netip.ParseAddr native on concrete literals, modelled as rejecting on digit-free symbolic tokens; engine; z3"),
 "C17": ("ExtractHostname on grammar URLs with symbolic scheme/host/port/path/query/fragment bytes; effectiveTLDPlusOne against the real body of publicsuffix.EffectiveTLDPlusOne on symbolic hosts; every field of NewRequest/NewRequestForHostname incl. third-party symmetry, the 4 KiB cap and an over-long source URL",
         "PSL replaced by a compact model validated exhaustively against the real library each run; net/url agreement validated on 20000 sampled grammar URLs; engine; z3"),
 "C03": ("(a) patternToRegexp on symbolic patterns (1..3/4 bytes): no crash, output == token translation; (b) for every enumerated mask pattern (1..2/3 tokens over 22 tokens incl. all regexp metacharacters, || and /* forms, match-case on/off, plus 32 operator idioms such as a{2} or (a|B) and seeded longer ones) and ALL URLs up to 10/14 printable bytes: compiled regexp accepts u <=> reference mask automaton accepts u (one solver query per pattern and length)",
         "regexp program encoded as bounded Pike-VM reachability (validated against MatchString each run); patterns enumerated concretely and parsed natively; D15 known finding excluded; engine; z3"),
 "C04": ("NetworkRule.Match on rules produced by the real parser from the modifier grammar (every single modifier with every value set in every value order, seeded pairs and multi-modifier rules) against the documented semantics of each modifier, for a field-wise symbolic request (flags, one-hot type, DNS type, client name/IPv4/IPv6, sorted tags, source and request hosts of symbolic bytes plus PSL tails, request hosts also over a hexadecimal letter)",
         "PSL model validated each run; parsed value lists cross-checked natively against the rule text; pattern conjunct fixed true; engine; z3"),
 "C10": ("loadDNSRewrite on symbolic values: short form up to 5/8 bytes, normal form with every response-code and record-type keyword of the dns tables and symbolic values up to 5/8 bytes (SRV 9) for the nine handled record types: accepted => published shape (dynamic type by record type, CNAME alone, RRType only with success, numeric fields equal to a decimal 16-bit reference, PTR a name of non-empty labels), rejected => nil, deterministic, no crash",
         "netip.ParseAddr contract stub on symbolic input; dns tables imported natively; engine; z3"),
 "C05": ("for every enumerated mask pattern, every grammar regular expression of 1..2 atoms over 25 atoms plus seeded longer ones, nested-group shapes and escape-parity shapes (an escaped backslash or escaped operator in front of an operator), and the regular-expression rules of the bundled lists: for ALL URLs up to 12/20 printable bytes and ALL hostnames up to 8/12 bytes, accepted by the compiled pattern => lower-cased URL contains the shortcut",
         "regexp program encoded as bounded Pike-VM reachability (validated against MatchString each run); rules parsed natively by the real parser; engine; z3"),
 "C01": ("NetworkEngine.AddRule/MatchAll with the real ShortcutsTable, DomainsTable and SeqScanTable on 1..3 symbolic rules (literal shortcut of symbolic bytes below/at/above the window length, symbolic $domain values incl. wildcard TLD, domain and subdomain, deep source hosts) and a symbolic URL and source host: rule.Match(q) <=> rule in MatchAll(q), nothing else returned; the hash is an uninterpreted function so every collision pattern is covered, and in additional jobs the real hash function runs on an alphabet where it collides so that collision-dependent counterexamples replay",
         "perfect storage stub; literal-pattern stub; hash abstraction justified by a lemma on the real body each run; outside the real-hash jobs counterexamples that need a collision are not replayable (noted, outside the claim); PSL model; engine; z3"),
 "C19": ("fault schedule as symbolic Booleans: every storage retrieval during NetworkEngine.MatchAll and DNSEngine.MatchRequest may fail independently: no crash, every returned rule matches, every rule none of whose retrievals failed is served; RuleStorage.RetrieveRule over a list that may fail at every call (sequences of 1..3/5 retrievals): materialised rules still served (also after Close and after later failures), unknown lists yield errors; a storage over a file-backed list whose storage or handle is closed",
         "stub retrieval returns nil on a fault (the real RetrieveRule/RetrieveNetworkRule path is checked in the storage harness); file model for the closed descriptor (Seek/Read return os.ErrClosed); engine; z3"),
 "C02": ("NewDNSEngine+MatchRequest with real lookup table, network engine tables, host-level filter and pooled request on 0..2 symbolic hosts-file rules and 0..2 symbolic network rules against the reference resolution (documented host-level predicate, Match on a fresh request, GetDNSBasicRule class, family split, matched flag), $client on a rule and client name/address on the request, recycled request with arbitrary contents; IsHostLevelNetworkRule == documented predicate for all option words",
         "scanner/storage stubbed as perfect; literal-pattern stub; hash uninterpreted (collision-dependent counterexamples noted, not replayable) plus real-hash jobs on names where djb2 collides; pooled request arbitrary; PSL model; engine; z3"),
 "C13": ("one inductive step per piece of hidden state from an arbitrary valid pre-state: pooled request with arbitrary contents, rule cache with any subset materialised, lazily compiled pattern warm vs cold, verdict evaluation with spare capacity in the caller slices (no sharing, repeatable), network engine queried before/after another query, Engine.MatchRequest after another request, DNS result getters asked twice",
         "representation invariants stated in the evidence; stubs as C01/C02; engine; z3"),
 "C15": ("CosmeticEngine.Match (built by the real NewCosmeticEngine over rules parsed by the real parser: every single rule and ordered pair of an 18-rule menu plus triples) for a symbolic hostname and symbolic flags against the reference (CosmeticRule.Match over all rules minus matching exceptions with equal content), selectors filed generic/specific, also after another query whose result the caller overwrote; GetCosmeticResult passes exactly the three option bits",
         "scanner stubbed as perfect; PSL model; engine; z3"),
 "C12": ("NewRule on lines of 0..5/7 symbolic bytes over seven alphabets (six syntax alphabets and all six ASCII white-space characters): no run-time panic on any path; nothing only for blank/comment lines, else a rule with Text()==TrimSpace(line) and the given list id, or an error; the parsing helpers and every loadOption name with symbolic values likewise",
         "bounded no-panic claim for the listed functions, not for long real-world lines; netip/regexp contract stubs; paths into findRegexpShortcut with symbolic input are cut and counted; engine; z3"),
 "C11": ("index packing injective and invertible for all int32 pairs; in-memory list content of 0..4/6 symbolic bytes scanned through the real RuleScanner+bufio.Reader+strings.Reader and retrieved through the real RetrieveRule: scanned sequence == line-by-line parse (kind, text, list id, index), RetrieveRule(idx) == scanned rule, CRLF invariance, also for a list that starts with a UTF-8 byte order mark; storage of 1..3 lists with arbitrary int32 ids serves each index from the list and offset it names; storage scanner over 2..4 lists; lines about as long as the 4 KiB read buffer; file-backed list == in-memory list (small buffers, short reads, two retrievals in a row)",
         "rule classification is the exact table of the real NewRule over {a,#,space} (computed natively each run), uninterpreted beyond it; file model with short reads and a shrunken read buffer; engine; z3"),
 "C20": ("findBodyInjectionIndex/isMatchFound on bodies of 0..9/13 symbolic bytes over the marker alphabets, on bodies of 5..8 arbitrary 7-bit bytes and on 16 KiB-boundary bodies (filler plus 9 symbolic bytes, marker straddling the window edge): index == first in-window marker (ASCII case-insensitive) else -1; filterHTML with its environment stubbed on bodies of 0..6/7 symbolic bytes incl. bytes >= 0x80 (Latin-1 coding modelled exactly): output == body with one tag before the first in-window marker else unchanged, Content-Length, Content-Encoding removed",
         "decompression and template are contracts (identity, fixed tag); Latin-1 coding written out in the harness; engine; z3"),
 "C14": ("two goroutines x one operation on the four protected objects (rule cache cold/warm, file-backed list handle and buffer, lazily compiled pattern cold/warm, pooled request): the operation is executed symbolically recording lock events and shared reads/writes per path, and for every pair of traces the solver decides whether two conflicting accesses can be unordered by happens-before in some schedule (clocks are solver variables); a potential race is replayed under go test -race; answer equality: one operation is interrupted after its k-th mutex release (k a solver variable) by the whole operation of another goroutine and both answers must equal the sequential ones (replayed by a native stress loop)",
         "bounded to 2 goroutines x 1 operation; interleavings in which both operations are split are not executed; mutex and pool contracts assumed; engine; z3"),
 "C16": ("unbounded in the fields the function reads (64-bit option word, 32-bit mask, exception flag fully symbolic under the parser's representation invariant); counterexamples replayed from rule text through the real parser",
         "InvRule on option words (validated natively on the repo's own rule corpus); go/ssa lowering; engine; z3"),
}
NOT_YET = {}
import os
ids = ["C%02d" % i for i in range(1, 21)]
checks = []
na = []
for i in ids:
    if i in CHECKS:
        text, note = CHECKS[i]
        checks.append({
            "property_id": i,
            "quick_cmd": "./check %s quick" % i,
            "thorough_cmd": "./check %s thorough" % i,
            "evidence_file": "/verif/evidence/%s.json" % i,
            "replay_cmd_template": "sh {path}",
            "engine": "gosym",
            "level_claimed": {"category": "model_checking", "text": "Bounded symbolic execution of the real Go code (SSA rebuilt from /repo on every run) with every assertion decided by an SMT solver over all symbolic inputs within the bound: " + text, "design_ref": "DESIGN.md §5 " + i},
            "level_note": note,
            "technique": "solver-based checking: SSA symbolic execution -> SMT-LIB2 (z3), counterexamples replayed natively",
        })
    else:
        na.append({"property_id": i, "reason": NOT_YET.get(i, "check not built yet in this round (engine under construction); no claim is made")})
m = {
 "version": 1,
 "setup_cmd": "mkdir -p /verif/bin && python3 /verif/mkoverlay.py && cd /verif/engine && GOFLAGS=-mod=mod GOPROXY=off GOSUMDB=off GOTOOLCHAIN=local go build -overlay /verif/bin/build_overlay.json -o /verif/bin/gosym .",
 "hooks": {"guard": "verif", "enable": "no source hooks: harnesses are injected with go/packages Overlay and `go test -overlay`", "baseline_off_cmd": "cd /repo && GOFLAGS=-mod=mod GOPROXY=off go test -vet=off -count=1 ./...", "source_commits": [], "add_only": True},
 "engines": [{"name": "gosym", "path": "/verif/engine", "serves_properties": sorted(CHECKS), "kind_free_text": "own Go SSA -> SMT-LIB2 symbolic executor (x/tools v0.29.0 go/ssa), z3 4.8.12 back end, native replay through go test -overlay"}],
 "checks": checks,
 "not_applicable": na,
 "notes": "see DESIGN.md; known findings in known_findings.json",
}
json.dump(m, open("/verif/MANIFEST.json", "w"), indent=1)
print("checks:", len(checks), "not_applicable:", len(na))
